# -*- coding: utf-8 -*-
"""
ref.codec -- a small RFC 6733 encoder / decoder, independent of bromelia.

A message is a dict:
  {"version": int, "flags": int, "code": int, "app": int, "hbh": int,
   "e2e": int, "avps": [avp, ...]}
An AVP is a tuple (code, flags, vendor_or_None, data) where data is bytes, or
a list of AVPs for a Grouped AVP built by the caller.
"""

import struct

HEADER_LEN = 20

# command codes
CE, DW, DP = 257, 280, 282
# flags
F_R, F_P, F_E, F_T = 0x80, 0x40, 0x20, 0x10
AF_V, AF_M, AF_P = 0x80, 0x40, 0x20

# AVP codes
SESSION_ID = 263
ORIGIN_HOST = 264
ORIGIN_REALM = 296
HOST_IP_ADDRESS = 257
VENDOR_ID = 266
PRODUCT_NAME = 269
RESULT_CODE = 268
DISCONNECT_CAUSE = 273
ORIGIN_STATE_ID = 278
DEST_HOST = 293
DEST_REALM = 283
AUTH_APP_ID = 258
USER_NAME = 1
PROXY_STATE = 33          # used as an opaque "tag" carrier (OctetString)
AUTH_SESSION_STATE = 277
VENDOR_SPECIFIC_APP_ID = 260
FIRMWARE_REVISION = 267


def u32(v):
    return struct.pack(">I", v & 0xFFFFFFFF)


def enc_avp(avp):
    code, flags, vendor, data = avp
    if isinstance(data, list):
        data = b"".join(enc_avp(a) for a in data)
    hdr = 12 if vendor is not None else 8
    length = hdr + len(data)
    out = struct.pack(">IB", code, flags) + length.to_bytes(3, "big")
    if vendor is not None:
        out += u32(vendor)
    out += data
    if length % 4:
        out += bytes(4 - length % 4)
    return out


def enc_msg(m, length_override=None):
    body = b"".join(enc_avp(a) for a in m["avps"])
    length = HEADER_LEN + len(body) if length_override is None else length_override
    hdr = bytes([m.get("version", 1)]) + length.to_bytes(3, "big") + \
        bytes([m["flags"]]) + m["code"].to_bytes(3, "big") + \
        u32(m["app"]) + u32(m["hbh"]) + u32(m["e2e"])
    return hdr + body


class DecodeError(Exception):
    pass


def dec_avps(buf):
    out = []
    i = 0
    n = len(buf)
    while i < n:
        if n - i < 8:
            raise DecodeError("short AVP header")
        code, flags = struct.unpack(">IB", buf[i:i + 5])
        length = int.from_bytes(buf[i + 5:i + 8], "big")
        hdr = 12 if flags & AF_V else 8
        if length < hdr or i + length > n:
            raise DecodeError("bad AVP length")
        vendor = None
        if flags & AF_V:
            vendor = struct.unpack(">I", buf[i + 8:i + 12])[0]
        data = bytes(buf[i + hdr:i + length])
        out.append((code, flags, vendor, data))
        i += length + ((4 - length % 4) % 4)
    return out


def dec_header(buf):
    if len(buf) < HEADER_LEN:
        raise DecodeError("short header")
    return {
        "version": buf[0],
        "length": int.from_bytes(buf[1:4], "big"),
        "flags": buf[4],
        "code": int.from_bytes(buf[5:8], "big"),
        "app": struct.unpack(">I", buf[8:12])[0],
        "hbh": struct.unpack(">I", buf[12:16])[0],
        "e2e": struct.unpack(">I", buf[16:20])[0],
    }


def dec_msg(buf):
    h = dec_header(buf)
    if h["length"] != len(buf):
        raise DecodeError("length mismatch")
    h["avps"] = dec_avps(buf[HEADER_LEN:])
    h["raw"] = bytes(buf)
    return h


class Framer(object):
    """Incremental reassembly of a Diameter byte stream."""

    def __init__(self):
        self.buf = bytearray()
        self.broken = None
        self.offset = 0          # stream offset of buf[0]

    def feed(self, data):
        """Append bytes; return the list of complete messages (decoded)."""
        out = []
        if self.broken:
            return out
        self.buf += data
        while len(self.buf) >= HEADER_LEN:
            length = int.from_bytes(self.buf[1:4], "big")
            if self.buf[0] != 1 or length < HEADER_LEN or length % 4:
                self.broken = "bad header at stream offset %d: %s" % (
                    self.offset, bytes(self.buf[:20]).hex())
                break
            if len(self.buf) < length:
                break
            raw = bytes(self.buf[:length])
            del self.buf[:length]
            try:
                m = dec_msg(raw)
            except DecodeError as e:
                self.broken = "undecodable message at stream offset %d: %s" % (self.offset, e)
                break
            m["offset"] = self.offset
            self.offset += length
            out.append(m)
        return out


def find(m, code, vendor=None):
    for a in m["avps"]:
        if a[0] == code and a[2] == vendor:
            return a
    return None


def find_all(m, code):
    return [a for a in m["avps"] if a[0] == code]


def is_request(m):
    return bool(m["flags"] & F_R)


# ---------------------------------------------------------------------------
# canonical base messages, in the form bromelia's validator accepts
# ---------------------------------------------------------------------------

def ip_data(ip):
    return b"\x00\x01" + bytes(int(x) for x in ip.split("."))


def ident_avps(host, realm):
    return [(ORIGIN_HOST, AF_M, None, host.encode()),
            (ORIGIN_REALM, AF_M, None, realm.encode())]


def cer(host, realm, ip="127.0.0.1", hbh=1, e2e=1, extra=()):
    return {"flags": F_R, "code": CE, "app": 0, "hbh": hbh, "e2e": e2e,
            "avps": ident_avps(host, realm) + [
                (HOST_IP_ADDRESS, AF_M, None, ip_data(ip)),
                (VENDOR_ID, AF_M, None, u32(0)),
                (PRODUCT_NAME, 0, None, b"refpeer")] + list(extra)}


def cea(host, realm, ip="127.0.0.1", hbh=1, e2e=1, result=2001, extra=()):
    return {"flags": 0, "code": CE, "app": 0, "hbh": hbh, "e2e": e2e,
            "avps": [(RESULT_CODE, AF_M, None, u32(result))] +
            ident_avps(host, realm) + [
                (HOST_IP_ADDRESS, AF_M, None, ip_data(ip)),
                (VENDOR_ID, AF_M, None, u32(0)),
                (PRODUCT_NAME, 0, None, b"refpeer")] + list(extra)}


def dwr(host, realm, hbh=1, e2e=1):
    return {"flags": F_R, "code": DW, "app": 0, "hbh": hbh, "e2e": e2e,
            "avps": ident_avps(host, realm)}


def dwa(host, realm, hbh=1, e2e=1, result=2001):
    return {"flags": 0, "code": DW, "app": 0, "hbh": hbh, "e2e": e2e,
            "avps": [(RESULT_CODE, AF_M, None, u32(result))] + ident_avps(host, realm)}


def dpr(host, realm, hbh=1, e2e=1, cause=0):
    return {"flags": F_R, "code": DP, "app": 0, "hbh": hbh, "e2e": e2e,
            "avps": ident_avps(host, realm) + [
                (DISCONNECT_CAUSE, AF_M, None, u32(cause))]}


def dpa(host, realm, hbh=1, e2e=1, result=2001):
    return {"flags": 0, "code": DP, "app": 0, "hbh": hbh, "e2e": e2e,
            "avps": [(RESULT_CODE, AF_M, None, u32(result))] + ident_avps(host, realm)}


def app_request(app, code, hbh, e2e, session, ohost, orealm, drealm, dhost=None,
                tag=b"", extra=(), proxiable=True):
    avps = [(SESSION_ID, AF_M, None, session.encode() if isinstance(session, str) else session),
            (ORIGIN_HOST, AF_M, None, ohost.encode()),
            (ORIGIN_REALM, AF_M, None, orealm.encode()),
            (DEST_REALM, AF_M, None, drealm.encode())]
    if dhost:
        avps.append((DEST_HOST, AF_M, None, dhost.encode()))
    if tag:
        avps.append((PROXY_STATE, AF_M, None, tag))
    avps += list(extra)
    return {"flags": F_R | (F_P if proxiable else 0), "code": code, "app": app,
            "hbh": hbh, "e2e": e2e, "avps": avps}


def app_answer(app, code, hbh, e2e, session, ohost, orealm, result=2001, tag=b"",
               extra=(), proxiable=True):
    avps = [(SESSION_ID, AF_M, None, session.encode() if isinstance(session, str) else session),
            (RESULT_CODE, AF_M, None, u32(result)),
            (ORIGIN_HOST, AF_M, None, ohost.encode()),
            (ORIGIN_REALM, AF_M, None, orealm.encode())]
    if tag:
        avps.append((PROXY_STATE, AF_M, None, tag))
    avps += list(extra)
    return {"flags": (F_P if proxiable else 0), "code": code, "app": app,
            "hbh": hbh, "e2e": e2e, "avps": avps}


def summary(m):
    return {"code": m["code"], "flags": m["flags"], "app": m["app"],
            "hbh": m["hbh"], "e2e": m["e2e"],
            "avps": [(a[0], a[2], a[3].hex() if len(a[3]) <= 24 else a[3][:24].hex() + "..") for a in m["avps"]]}
