# -*- coding: utf-8 -*-
"""
ref.psm_model -- small executable reference model of the RFC 6733 peer state
machine "as implemented", for property C06.

The model is PERMISSIVE: ``allowed(role, state, event)`` returns the SET of
states the node may report once it has settled after ``event`` in ``state``.
Everything the property statement leaves open is a set with more than one
element.  What the statement fixes is a singleton (plus obligations: messages
that must appear on the wire).  The hard clauses H1..H8 are checked by the
harness on top of this table.
"""

CLOSED, WCA, WICEA, OPEN, CLOSING, WRET, WELECT = (
    "Closed", "Wait-Conn-Ack", "Wait-I-CEA", "Open", "Closing", "Wait-Returns",
    "Wait-Conn-Ack/Elect")

ALL = {CLOSED, WCA, WICEA, OPEN, CLOSING, WRET, WELECT}


def norm(state):
    return OPEN if state in ("I-Open", "R-Open") else state


EVENTS = [
    "cer_valid", "cer_bad_host", "cer_bad_realm", "cer_odd", "cer_bad_host_dup", "cer_no_host_dup",
    "cea_valid", "cea_bad_host", "cea_bad_realm", "cea_odd", "cea_bad_host_dup", "cea_bad_realm_dup",
    "dwr_valid", "dwr_bad_host", "dwa_valid", "dwa_bad_host",
    "dpr_valid", "dpr_bad_host", "dpr_other_cause",
    "dpa_valid", "dpa_bad_host",
    "app_req", "app_ans", "app_req_misaddressed",
    "peer_disc", "peer_rst", "local_stop", "idle",
]

MESSAGE_EVENTS = [e for e in EVENTS if e not in ("peer_disc", "peer_rst", "local_stop", "idle")]


# identity-invalid messages whose AVP *count* is made right again by a duplicated AVP:
# for the model they are exactly as invalid as their plain counterparts
ALIASES = {"cer_bad_host_dup": "cer_bad_host", "cer_no_host_dup": "cer_bad_host",
           "cea_bad_host_dup": "cea_bad_host", "cea_bad_realm_dup": "cea_bad_realm"}


def allowed(role, state, ev):
    ev = ALIASES.get(ev, ev)
    return _allowed(role, state, ev)


def _allowed(role, state, ev):
    """-> (set of allowed settled states, list of obligations)
    obligations: ("answer", "CEA"|"DWA"|"DPA")  an answer echoing the ids must be written
                 ("one_dpr",)                   exactly one DPR is written
                 ("dwr",)                       a DWR is written"""
    s = state
    if s in (WRET, WELECT):
        # unimplemented election states: nothing is promised (H1 still guards Open)
        return set(ALL), []
    if s == CLOSED:
        # server side, transport accepted, awaiting the CER
        if role == "server":
            if ev == "cer_valid":
                return {OPEN}, [("answer", "CEA")]
            if ev == "cer_odd":
                return {OPEN, CLOSED}, []
            return {CLOSED}, []
        return {CLOSED}, []
    if s == WCA:
        return {WCA, WICEA, CLOSED}, []
    if s == WICEA:
        if ev == "cea_valid":
            return {OPEN}, []
        if ev == "cea_odd":
            return {OPEN, WICEA, CLOSED}, []
        if ev in ("cea_bad_host", "cea_bad_realm"):
            return {WICEA, CLOSED}, []
        if ev == "cer_valid":
            return {WRET, WICEA, CLOSED}, []
        if ev in ("cer_bad_host", "cer_bad_realm", "cer_odd"):
            return {WICEA, CLOSED, WRET}, []
        if ev in ("peer_disc", "peer_rst"):
            return {CLOSED}, []
        if ev == "local_stop":
            return {CLOSED, WICEA}, []
        if ev == "idle":
            return {WICEA, CLOSED}, []
        # anything but a CEA while awaiting one closes the connection
        return {CLOSED}, []
    if s == OPEN:
        if ev == "dwr_valid":
            return {OPEN}, [("answer", "DWA")]
        if ev == "dwr_bad_host":
            return {OPEN, CLOSING, CLOSED}, []
        if ev == "dwa_valid":
            return {OPEN}, []
        if ev == "dwa_bad_host":
            return {OPEN, CLOSING}, []
        if ev == "dpr_valid":
            return {CLOSED}, [("answer", "DPA")]
        if ev in ("dpr_bad_host", "dpr_other_cause"):
            return {CLOSED, OPEN}, []
        if ev in ("dpa_valid", "dpa_bad_host", "cea_valid", "cea_bad_host", "cea_bad_realm", "cea_odd"):
            return {OPEN, CLOSED}, []
        if ev == "cer_valid":
            return {OPEN}, [("answer", "CEA")]
        if ev in ("cer_bad_host", "cer_bad_realm", "cer_odd"):
            return {OPEN}, []
        if ev in ("app_req", "app_ans"):
            return {OPEN}, []
        if ev == "app_req_misaddressed":
            return {OPEN, CLOSING, CLOSED}, []
        if ev in ("peer_disc", "peer_rst"):
            return {CLOSED}, []
        if ev == "local_stop":
            return {CLOSING}, [("one_dpr",)]
        if ev == "idle":
            return {OPEN}, [("dwr",)]
    if s == CLOSING:
        if ev == "dpa_valid":
            return {CLOSED}, []
        if ev == "dpa_bad_host":
            return {CLOSED, CLOSING}, []
        if ev in ("peer_disc", "peer_rst"):
            return {CLOSED}, []
        if ev in ("dpr_valid", "dpr_bad_host", "dpr_other_cause"):
            return {CLOSING, CLOSED}, []
        if ev == "idle":
            return {CLOSING, CLOSED}, []
        return {CLOSING}, []
    return set(ALL), []
