# -*- coding: utf-8 -*-
"""
ref.peer -- an event-driven scripted Diameter peer living inside the
simulator (not a thread).  It reassembles the node's byte stream with the
reference framer, answers or withholds CER/CEA/DWR/DWA/DPR/DPA according to
its behaviour table and emits whatever the scenario tells it to.
"""

from . import codec as C


class ScriptedPeer(object):
    def __init__(self, sim, net, host, realm, node_host, node_realm, hist,
                 behaviour=None, name="peer"):
        self.sim = sim
        self.net = net
        self.host = host
        self.realm = realm
        self.node_host = node_host
        self.node_realm = node_realm
        self.hist = hist
        self.name = name
        self.sock = None
        self.socks = []          # every connection this peer has had
        self.framer = None
        self.conn_index = -1
        self.rx = []             # decoded messages received from the node
        self.tx = []             # messages sent
        self.b = {
            "answer_cer": "valid",     # valid | wrong_host | wrong_realm | none | error_result | close
            "answer_dwr": True,
            "answer_dpr": True,
            "close_after_dpa": True,   # after sending DPA, close the connection
            "close_on_dpa_rcv": True,  # after receiving a DPA (we sent DPR), close
            "cea_delay": 0.0,
            "answer_delay": 0.0,
        }
        if behaviour:
            self.b.update(behaviour)
        self.on_message = None    # optional extra callback(msg)
        self.connected_cb = None
        self.next_hbh = 0x1000
        self.broken = None

    # ---- connection management ----------------------------------------
    def listen(self, addr):
        """Act as server: accept the node's connect to addr."""
        self.net.virtual_listeners[addr] = self._accepted

    def stop_listening(self, addr):
        self.net.virtual_listeners.pop(addr, None)

    def _accepted(self, sock):
        self._attach(sock)
        self.hist.add("peer_accepted", conn=self.conn_index)

    def connect(self, addr, then=None):
        """Act as client: connect to the node listening at addr."""
        def done(sock, ok):
            if ok:
                self._attach(sock)
                self.hist.add("peer_connected", conn=self.conn_index)
                if then:
                    then(self)
            else:
                self.hist.add("peer_connect_refused")
        return self.net.peer_connect(addr, done)

    def _attach(self, sock):
        self.sock = sock
        self.socks.append(sock)
        self.conn_index += 1
        self.framer = C.Framer()
        sock.on_event = self._on_event
        if self.connected_cb:
            self.connected_cb(self)

    def _on_event(self, sock):
        if sock is not self.sock:
            return
        if sock.rbuf:
            data = bytes(sock.rbuf)
            sock.rbuf.clear()
            msgs = self.framer.feed(data)
            if self.framer.broken and not self.broken:
                self.broken = self.framer.broken
                self.hist.add("peer_rx_broken", why=self.broken, conn=self.conn_index)
            for m in msgs:
                self._received(m)
        if (sock.eof or sock.rst) and not getattr(sock, "_eof_seen", False):
            sock._eof_seen = True
            self.hist.add("peer_saw_close", conn=self.conn_index, rst=sock.rst)
            if self.b.get("close_on_peer_close", True) and sock.state != "closed":
                sock._close()

    # ---- receive side ----------------------------------------------------
    def _received(self, m):
        m["conn"] = self.conn_index
        self.rx.append(m)
        self.hist.add("peer_rx", msg=m, conn=self.conn_index)
        code, req = m["code"], C.is_request(m)
        b = self.b
        if code == C.CE and req:
            mode = b["answer_cer"]
            if mode == "none":
                pass
            elif mode == "close":
                self.close()
            else:
                host, realm, result = self.host, self.realm, 2001
                if mode == "wrong_host":
                    host = "intruder." + self.realm
                elif mode == "wrong_realm":
                    realm = "elsewhere"
                elif mode == "error_result":
                    result = 5010
                ans = C.cea(host, realm, hbh=m["hbh"], e2e=m["e2e"], result=result)
                self.send_later(b["cea_delay"], ans)
        elif code == C.DW and req:
            if b["answer_dwr"]:
                self.send_later(b["answer_delay"],
                                C.dwa(self.host, self.realm, hbh=m["hbh"], e2e=m["e2e"]))
        elif code == C.DP and req:
            if b["answer_dpr"]:
                def go():
                    self.send(C.dpa(self.host, self.realm, hbh=m["hbh"], e2e=m["e2e"]))
                    if b["close_after_dpa"]:
                        self.close()
                if b["answer_delay"] > 0:
                    self.sim.after(b["answer_delay"], go)
                else:
                    go()
        elif code == C.DP and not req:
            if b["close_on_dpa_rcv"]:
                self.close()
        if self.on_message:
            self.on_message(m)

    # ---- send side -------------------------------------------------------
    def send_later(self, delay, m, **kw):
        if delay and delay > 0:
            self.sim.after(delay, lambda: self.send(m, **kw))
        else:
            self.send(m, **kw)

    def send(self, m, cuts=None, delays=None, raw=None):
        sock = self.sock
        if sock is None or sock.state != "connected":
            self.hist.add("peer_tx_dropped", why="not connected")
            return False
        data = raw if raw is not None else C.enc_msg(m)
        self.tx.append(m)
        self.hist.add("peer_tx", msg=m, nbytes=len(data), conn=self.conn_index)
        self.net.transmit(sock, data, cuts=cuts, delays=delays)
        return True

    def send_stream(self, msgs, cuts=None, delays=None):
        """Send several messages as ONE byte stream cut at the given offsets."""
        sock = self.sock
        if sock is None or sock.state != "connected":
            self.hist.add("peer_tx_dropped", why="not connected")
            return False
        data = b""
        for m in msgs:
            enc = m.get("raw_override") if isinstance(m, dict) and m.get("raw_override") is not None else C.enc_msg(m)
            self.tx.append(m)
            self.hist.add("peer_tx", msg=m, nbytes=len(enc), conn=self.conn_index,
                          offset=len(data))
            data += enc
        self.net.transmit(sock, data, cuts=cuts, delays=delays)
        return True

    def send_raw(self, data, cuts=None, delays=None, label="raw"):
        sock = self.sock
        if sock is None or sock.state != "connected":
            self.hist.add("peer_tx_dropped", why="not connected")
            return False
        self.hist.add("peer_tx_raw", nbytes=len(data), label=label, conn=self.conn_index)
        self.net.transmit(sock, data, cuts=cuts, delays=delays)
        return True

    def close(self, reset=False):
        sock = self.sock
        if sock is not None and sock.state != "closed":
            self.hist.add("peer_close", reset=reset, conn=self.conn_index)
            sock._close(reset=reset)

    def hbh(self):
        self.next_hbh += 1
        return self.next_hbh


class History(object):
    """Global recorded history, stamped with the simulator's event sequence."""

    def __init__(self, sim):
        self.sim = sim
        self.events = []
        self.n = 0

    def add(self, kind, **kw):
        self.n += 1
        ev = {"seq": self.n, "step": self.sim.steps, "t": self.sim.now, "kind": kind}
        ev.update(kw)
        self.events.append(ev)
        self.sim.log("hist", kind)
        return ev

    def of(self, *kinds):
        return [e for e in self.events if e["kind"] in kinds]
