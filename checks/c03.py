# -*- coding: utf-8 -*-
"""
C03 -- Malformed input is rejected cleanly and never wedges the decoder or the
node.

World A.  Malformed byte strings (mutations of well-formed messages: every
kind of truncation, adversarial Message / AVP Length values, wrong-width typed
data, unknown enumerators, bad address family, version != 1, non-UTF-8
identities, misaddressed requests, random garbage) are injected by the peer
into a live node in each state in which bytes can arrive, segmented
arbitrarily, under all scheduling policies.  Oracle: workers survive or the
connection closes cleanly, no lock is stranded, local API calls return, no
thread computes forever.  Sub-check (input sampling on the same corpus, under
the simulator's step meter): DiameterMessage.load returns or raises a library
error type within a step bound that depends only on the input length.
"""

import copy
import random
import struct

from simkit.driver import Check, base_result
from simkit.kernel import SimHang
from ref import codec as C
from checks.worlda import (WorldA, draw_knobs, draw_sched, NODE_HOST, NODE_REALM,
                           PEER_HOST, PEER_REALM)

APP_ID = 16777251
STATES = ["server_closed", "client_wicea", "open", "open", "open_traffic", "closing"]
MUTATIONS = ["truncate", "msg_len", "avp_len", "avp_len", "wrong_width", "bad_enum", "bad_family", "version",
             "non_utf8", "misaddressed", "garbage", "flip", "huge_len", "dup_avp", "zero_avp", "empty", "vflag",
             "deep_nest", "flood", "vendor_flood", "typed_garbage", "typed_garbage"]
BASES = ["cer", "cea", "dwr", "dwa", "dpr", "dpa", "app_req", "app_ans", "app_req_big"]


def base_message(kind, n):
    hb, ee = 0x71000000 + n, 0x72000000 + n
    if kind == "cer":
        return C.cer(PEER_HOST, PEER_REALM, hbh=hb, e2e=ee)
    if kind == "cea":
        return C.cea(PEER_HOST, PEER_REALM, hbh=hb, e2e=ee)
    if kind == "dwr":
        return C.dwr(PEER_HOST, PEER_REALM, hbh=hb, e2e=ee)
    if kind == "dwa":
        return C.dwa(PEER_HOST, PEER_REALM, hbh=hb, e2e=ee)
    if kind == "dpr":
        return C.dpr(PEER_HOST, PEER_REALM, hbh=hb, e2e=ee)
    if kind == "dpa":
        return C.dpa(PEER_HOST, PEER_REALM, hbh=hb, e2e=ee)
    extra = [(C.AUTH_SESSION_STATE, C.AF_M, None, C.u32(1)),
             (C.USER_NAME, C.AF_M, None, b"user%d" % n),
             (C.VENDOR_SPECIFIC_APP_ID, C.AF_M, None, [(C.VENDOR_ID, C.AF_M, None, C.u32(10415)),
                                                       (C.AUTH_APP_ID, C.AF_M, None, C.u32(APP_ID))]),
             (1407, C.AF_V | C.AF_M, 10415, bytes.fromhex("27f450"))]      # Visited-PLMN-Id (3GPP)
    if kind == "app_req":
        return C.app_request(APP_ID, 316, hb, ee, "p;8;%d" % n, PEER_HOST, PEER_REALM, NODE_REALM, extra=extra)
    if kind == "app_req_dh":
        return C.app_request(APP_ID, 316, hb, ee, "p;8;%d" % n, PEER_HOST, PEER_REALM, NODE_REALM, dhost=NODE_HOST, extra=extra)
    if kind == "app_req_big":
        return C.app_request(APP_ID, 316, hb, ee, "p;8;%d" % n, PEER_HOST, PEER_REALM, NODE_REALM,
                             extra=extra + [(99998, 0, None, bytes(1500))])
    return C.app_answer(APP_ID, 316, hb, ee, "p;8;%d" % n, PEER_HOST, PEER_REALM, extra=extra)


def avp_offsets(raw):
    out = []
    off = 20
    while off + 8 <= len(raw):
        length = int.from_bytes(raw[off + 5:off + 8], "big")
        out.append((off, length))
        if length < 8:
            break
        off += length + ((4 - length % 4) % 4)
    return out


def mutate(spec, n, live=False):
    """spec -> bytes (deterministic).  live=True: the variant injected into the live node (see deep_nest)."""
    r = random.Random(spec["seed"])
    m = base_message(spec["base"], n)
    raw = bytearray(C.enc_msg(m))
    mut = spec["mut"]
    if mut == "empty":
        return b""
    if mut == "truncate":
        k = spec.get("arg")
        k = r.randrange(0, len(raw)) if k is None else k % len(raw)
        return bytes(raw[:k])
    if mut == "msg_len":
        v = r.choice([0, 1, 4, 8, 12, 16, 19, 20, 21, 22, 23, len(raw) - 4, len(raw) + 4, len(raw) - 1, len(raw) + 1,
                      r.randrange(0, 64)])
        raw[1:4] = max(0, v).to_bytes(3, "big")
        return bytes(raw)
    if mut == "huge_len":
        raw[1:4] = r.choice([0xffffff, 0xfffffc, 0x100000, 0x010000]).to_bytes(3, "big")
        return bytes(raw)
    offs = avp_offsets(raw)
    if mut == "avp_len" and offs:
        voffs = [(o, l) for (o, l) in offs if raw[o + 4] & 0x80]
        off, length = r.choice(voffs) if voffs and r.random() < 0.5 else r.choice(offs)
        v = r.choice([0, 0, 1, 4, 7, 8, 9, 11, 12, 13, length - 1, length + 1, length + 4, 0xffffff, 0x00ffff,
                      len(raw), r.randrange(0, 1 << 24), r.randrange(0, 16)])
        raw[off + 5:off + 8] = max(0, v).to_bytes(3, "big")
        return bytes(raw)
    if mut == "typed_garbage":
        # every AVP class of the dictionary gets adversarial data of the wrong width / encoding / syntax
        table = _dictionary_codes()
        vendor, code = table[r.randrange(len(table))]
        payloads = PAYLOADS + [bytes(r.getrandbits(8) for _ in range(r.randrange(1, 40)))]
        data = payloads[r.randrange(len(payloads))]
        flags = (C.AF_V if vendor else 0) | C.AF_M
        avps = list(m["avps"]) + [(code, flags, vendor or None, data)]
        return C.enc_msg(dict(m, avps=avps))
    if mut == "flood":
        # count boundary: thousands of minimal well-framed messages (header only, unknown command) back to back
        k = r.choice([70, 300, 1100, 2500])
        k = min(k, spec.get("flood_cap", 2500))
        out = bytearray()
        for i in range(k):
            out += b"\x01\x00\x00\x14" + bytes([r.choice([0x80, 0x00])]) + (900000 + i % 7).to_bytes(3, "big") + \
                (0).to_bytes(4, "big") + (0x7e000000 + i).to_bytes(4, "big") + (0x7f000000 + i).to_bytes(4, "big")
        return bytes(out)
    if mut == "vendor_flood":
        # one message with hundreds of vendor-specific AVPs of vendors nobody registered
        k = r.choice([50, 300])
        base = r.getrandbits(20) << 8
        avps = list(m["avps"]) + [(70000 + i, C.AF_V, 3000000 + base + i, b"junk") for i in range(k)]
        return C.enc_msg(dict(m, avps=avps))
    if mut == "deep_nest":
        # a Grouped AVP nested in itself many levels deep
        depth = r.choice([20, 80, 200, 400, 1200])
        if live:
            # CPython 3.12.1 crashes (segfault, not RecursionError) when a RecursionError unwinds through
            # a traced thread a second time; the live node therefore gets a deep but legal nesting and
            # only the decoder sub-check sees the recursion-limit depths
            depth = min(depth, 120)
        code = r.choice([C.VENDOR_SPECIFIC_APP_ID, 279, 284, 297])      # grouped: VSAI, Failed-AVP, Proxy-Info, Exp-Result
        leaf = C.enc_avp((C.VENDOR_ID, C.AF_M, None, C.u32(10415)))
        inner = leaf
        # "legal" nesting: every level also carries the member its own type demands (so that each level
        # passes its own validation and the decoder really descends), or only the nested AVP
        siblings = r.random() < 0.5
        for _ in range(depth):
            inner = C.enc_avp((code, C.AF_M, None, (leaf + inner) if siblings else inner))
        body = b"".join(C.enc_avp(a) for a in m["avps"]) + inner
        hdr = bytes(raw[:1]) + (20 + len(body)).to_bytes(3, "big") + bytes(raw[4:20])
        return hdr + body
    if mut == "flagbit" and offs:
        off, length = r.choice(offs[:6]) if r.random() < 0.7 else r.choice(offs)
        raw[off + 4] ^= r.choice([0x80, 0x80, 0x40, 0x20])
        return bytes(raw)
    if mut == "vflag" and offs:
        # toggle the V bit of an AVP and give it an adversarial length
        off, length = r.choice(offs)
        raw[off + 4] ^= 0x80
        if r.random() < 0.7:
            raw[off + 5:off + 8] = r.choice([0, 8, 11, 12, 13, length]).to_bytes(3, "big")
        return bytes(raw)
    if mut == "zero_avp" and offs:
        off, length = r.choice(offs)
        raw[off:off + 8] = bytes(8)
        return bytes(raw)
    if mut == "wrong_width":
        # re-encode with a fixed-width AVP of the wrong size
        code, size = r.choice([(C.RESULT_CODE, 5), (C.RESULT_CODE, 3), (C.VENDOR_ID, 7), (C.AUTH_SESSION_STATE, 3),
                               (C.DISCONNECT_CAUSE, 2), (C.ORIGIN_STATE_ID, 9), (C.HOST_IP_ADDRESS, 3),
                               (C.HOST_IP_ADDRESS, 1), (C.AUTH_APP_ID, 0), (55, 3), (C.FIRMWARE_REVISION, 1)])
        avps = [a for a in m["avps"] if a[0] != code] + [(code, C.AF_M, None, bytes(r.getrandbits(8) for _ in range(size)))]
        r.shuffle(avps)
        return C.enc_msg(dict(m, avps=avps))
    if mut == "bad_enum":
        code = r.choice([C.DISCONNECT_CAUSE, C.AUTH_SESSION_STATE, 274, 285, 261, 1032])
        avps = [a for a in m["avps"] if a[0] != code] + [(code, C.AF_M, None, C.u32(r.choice([99, 0xffffffff, 0x7fffffff, 12345])))]
        return C.enc_msg(dict(m, avps=avps))
    if mut == "bad_family":
        data = r.choice([b"\x00\x03\x7f\x00\x00\x01", b"\x00\x02" + bytes(4), b"\x00\x01\x01", b"\xff\xff" + bytes(16),
                         b"\x00\x02" + bytes(16), b"", b"\x00"])
        avps = [a for a in m["avps"] if a[0] != C.HOST_IP_ADDRESS] + [(C.HOST_IP_ADDRESS, C.AF_M, None, data)]
        return C.enc_msg(dict(m, avps=avps))
    if mut == "version":
        raw[0] = r.choice([0, 2, 3, 255])
        return bytes(raw)
    if mut == "junk_flood":
        # count boundary on the error path: k messages in a row, each well framed (the next one starts where the
        # Message Length says) and each impossible to decode, with identifiers of their own
        k = spec.get("arg") or 16
        kind = r.choice(["wrong_width", "bad_enum", "bad_family", "non_utf8"])
        out = bytearray()
        for i in range(k):
            one = mutate({"base": spec["base"], "mut": kind, "seed": spec["seed"] + i, "arg": None}, n)
            one = bytearray(one)
            one[12:16] = (0x7e100000 + i).to_bytes(4, "big")
            one[16:20] = (0x7f100000 + i).to_bytes(4, "big")
            out += one
        return bytes(out)
    if mut == "non_utf8":
        code = spec.get("arg") or r.choice([C.ORIGIN_HOST, C.ORIGIN_REALM, C.SESSION_ID, C.PRODUCT_NAME, C.DEST_REALM, C.USER_NAME])
        if spec.get("drop_user_name"):
            m = dict(m, avps=[a for a in m["avps"] if a[0] != C.USER_NAME])
        avps = [(a[0], a[1], a[2], b"\xff\xfe\xc0\x80" + bytes(r.getrandbits(8) for _ in range(3)))
                if a[0] == code else a for a in m["avps"]]
        if not any(a[0] == code for a in m["avps"]):
            avps.append((code, C.AF_M, None, b"\xff\xfe\x80"))
        return C.enc_msg(dict(m, avps=avps))
    if mut == "misaddressed":
        m2 = C.app_request(APP_ID, 316, m["hbh"], m["e2e"], "p;8;%d" % n, PEER_HOST, PEER_REALM,
                           r.choice(["other.realm", "", NODE_REALM + "x"]),
                           dhost=r.choice([None, "someone.else", ""]))
        return C.enc_msg(m2)
    if mut == "garbage":
        return bytes(r.getrandbits(8) for _ in range(r.choice([1, 3, 19, 20, 21, 40, 200, 1500])))
    if mut == "dup_avp":
        avps = list(m["avps"])
        for _ in range(r.choice([1, 2, 5])):
            avps.insert(r.randrange(len(avps) + 1), r.choice(avps))
        return C.enc_msg(dict(m, avps=avps))
    # flip
    for _ in range(r.choice([1, 1, 2, 4, 8])):
        i = r.randrange(len(raw))
        raw[i] = r.getrandbits(8)
    return bytes(raw)


_DICT_CODES = []


def _dictionary_codes():
    """(vendor, code) of every AVP class bromelia's loader knows, sorted (deterministic for a given tree)."""
    if not _DICT_CODES:
        from bromelia.base import DiameterAVP
        seen = set()
        for cls in DiameterAVP.__subclasses__():
            try:
                code = int.from_bytes(cls.code, "big")
                vendor = int.from_bytes(cls.vendor_id, "big") if getattr(cls, "vendor_id", None) else 0
                seen.add((vendor, code))
            except Exception:
                continue
        _DICT_CODES.extend(sorted(seen) or [(0, 264)])
    return _DICT_CODES


def decode_in_grandchild(blob, bound, wall=20.0):
    """DiameterMessage.load(blob) in a forked grandchild under a plain line meter and a wall-clock watchdog
    (a C-level hang -- e.g. a regular expression that backtracks exponentially -- never reaches a Python
    line event and would otherwise freeze the whole run).  -> dict(status=returned|library|leak|steps|wall, ...)"""
    import json as _json
    import os as _os
    import select as _select
    import signal as _signal
    import sys as _sys
    rfd, wfd = _os.pipe()
    pid = _os.fork()
    if pid == 0:
        try:
            _os.close(rfd)
            import bromelia.exceptions as E
            from bromelia.base import DiameterMessage
            libtypes = tuple(c for c in vars(E).values() if isinstance(c, type) and issubclass(c, BaseException))
            root = _os.path.join(_os.environ.get("VERIF_REPO", "/repo"), "bromelia") + _os.sep
            cnt = [0]

            class _Over(BaseException):
                pass

            def ltrace(frame, event, arg):
                if event == "line":
                    cnt[0] += 1
                    if cnt[0] > bound:
                        raise _Over()
                return ltrace

            def gtrace(frame, event, arg):
                return ltrace if frame.f_code.co_filename.startswith(root) else None
            out = {}
            _sys.settrace(gtrace)
            try:
                DiameterMessage.load(blob)
                out["status"] = "returned"
            except _Over:
                out["status"] = "steps"
            except libtypes:
                out["status"] = "library"
            except BaseException as e:      # noqa
                import traceback
                tb = traceback.extract_tb(e.__traceback__)[-1]
                out = {"status": "leak", "type": type(e).__name__, "msg": str(e)[:160],
                       "where": "%s:%d" % (tb.filename.split("/")[-1], tb.lineno)}
            finally:
                _sys.settrace(None)
            out["steps"] = cnt[0]
            _os.write(wfd, _json.dumps(out).encode())
        finally:
            _os._exit(0)
    _os.close(wfd)
    # watchdog on the CPU time the decoder process has consumed (robust against an overloaded machine)
    import time as _time
    t_start = _time.time()
    r = []
    while True:
        r, _, _ = _select.select([rfd], [], [], 0.5)
        if r:
            break
        try:
            with open("/proc/%d/stat" % pid) as f:
                parts = f.read().rsplit(")", 1)[1].split()
            cpu = (int(parts[11]) + int(parts[12])) / float(_os.sysconf("SC_CLK_TCK"))
        except (OSError, IndexError, ValueError):
            cpu = 0.0
        if cpu > wall or _time.time() - t_start > 30 * wall:
            break
    if not r:
        try:
            _os.kill(pid, _signal.SIGKILL)
        except ProcessLookupError:
            pass
        _os.waitpid(pid, 0)
        _os.close(rfd)
        return {"status": "wall", "wall": wall}
    data = b""
    while True:
        chunk = _os.read(rfd, 65536)
        if not chunk:
            break
        data += chunk
    _os.close(rfd)
    _os.waitpid(pid, 0)
    try:
        return _json.loads(data.decode())
    except ValueError:
        return {"status": "leak", "type": "ChildDied", "msg": "decoder process died", "where": "?"}


PAYLOADS = [b"", b"\x00", b"\xff\xfe\xfd", bytes(3), bytes(5), bytes(7), bytes(9), bytes(12),
            b"\x00\x03" + bytes(4), b"\x00\x01" + bytes(3), b"a" * 33, b"\x80" * 16, b"\xe9t\xe9",
            b"aaa://" + b"a" * 36 + b";transport=tls ", b"aaa://host.example.com:3868;transport=tcp;protocol=diameter",
            b"aaa://" + b"-" * 30, b"\x00\x02" + bytes(16)]


def typed_garbage_message(code_index, payload_index, n):
    table = _dictionary_codes()
    vendor, code = table[code_index % len(table)]
    data = PAYLOADS[payload_index % len(PAYLOADS)]
    m = base_message("app_ans", n)
    flags = (C.AF_V if vendor else 0) | C.AF_M
    return C.enc_msg(dict(m, avps=list(m["avps"]) + [(code, flags, vendor or None, data)]))


_GROUPED = []


def _grouped_types():
    """(vendor, code, encoded mandatory members) of every Grouped AVP class of the dictionary whose mandatory
    members can be built (with the library's own member classes: these are inputs, not oracles)."""
    if not _GROUPED:
        from bromelia.base import DiameterAVP
        from bromelia.types import GroupedType
        for cls in DiameterAVP.__subclasses__():
            try:
                if not issubclass(cls, GroupedType):
                    continue
                members = b""
                for mc in (getattr(cls, "mandatory", None) or {}).values():
                    enc = None
                    for args in ((), (1,), (b"\x00\x00\x00\x01",), ("a.b",), (b"a.b",)):
                        try:
                            enc = mc(*args).dump()
                            break
                        except BaseException:       # noqa -- library errors derive from BaseException
                            continue
                    if enc is None:
                        raise ValueError("member")
                    members += enc
                code = int.from_bytes(cls.code, "big")
                vendor = int.from_bytes(cls.vendor_id, "big") if getattr(cls, "vendor_id", None) else 0
                _GROUPED.append((vendor, code, members))
            except BaseException:                   # noqa
                continue
        _GROUPED.sort()
    return _GROUPED


def nested_group_message(gi, depth, n):
    """A Grouped AVP of the dictionary nested in itself `depth` levels deep, every level complete with the
    members its own type demands (so that every level passes its validation and the decoder descends)."""
    table = _grouped_types()
    if not table:
        return None
    vendor, code, members = table[gi % len(table)]
    flags = (C.AF_V if vendor else 0) | C.AF_M
    inner = members
    for _ in range(depth):
        inner = C.enc_avp((code, flags, vendor or None, members + inner))
    m = base_message("app_ans", n)
    body = b"".join(C.enc_avp(a) for a in m["avps"]) + inner
    raw = C.enc_msg(m)
    return bytes(raw[:1]) + (20 + len(body)).to_bytes(3, "big") + bytes(raw[4:20]) + body


def decode_many_in_grandchild(blobs, bounds, cpu_limit=20.0):
    """Like decode_in_grandchild, for a list of inputs in ONE process: -> list of result dicts (None = not reached)."""
    import json as _json
    import os as _os
    import select as _select
    import signal as _signal
    import sys as _sys
    import time as _time
    rfd, wfd = _os.pipe()
    pid = _os.fork()
    if pid == 0:
        try:
            _os.close(rfd)
            import bromelia.exceptions as E
            from bromelia.base import DiameterMessage
            libtypes = tuple(c for c in vars(E).values() if isinstance(c, type) and issubclass(c, BaseException))
            root = _os.path.join(_os.environ.get("VERIF_REPO", "/repo"), "bromelia") + _os.sep
            cnt = [0, 0]

            class _Over(BaseException):
                pass

            def ltrace(frame, event, arg):
                if event == "line":
                    cnt[0] += 1
                    if cnt[0] > cnt[1]:
                        raise _Over()
                return ltrace

            def gtrace(frame, event, arg):
                return ltrace if frame.f_code.co_filename.startswith(root) else None
            for i, blob in enumerate(blobs):
                cnt[0], cnt[1] = 0, bounds[i]
                _os.write(wfd, ("B %d\n" % i).encode())
                out = {}
                _sys.settrace(gtrace)
                try:
                    DiameterMessage.load(blob)
                    out["status"] = "returned"
                except _Over:
                    out["status"] = "steps"
                except libtypes:
                    out["status"] = "library"
                except BaseException as e:      # noqa
                    import traceback
                    tb = traceback.extract_tb(e.__traceback__)[-1]
                    out = {"status": "leak", "type": type(e).__name__, "msg": str(e)[:160],
                           "where": "%s:%d" % (tb.filename.split("/")[-1], tb.lineno)}
                finally:
                    _sys.settrace(None)
                out["steps"] = cnt[0]
                _os.write(wfd, ("R %d %s\n" % (i, _json.dumps(out))).encode())
        finally:
            _os._exit(0)
    _os.close(wfd)
    results = [None] * len(blobs)
    buf = b""
    current = [None]
    t0 = _time.time()
    cpu_at_begin = 0.0
    done = False
    while not done:
        r, _, _ = _select.select([rfd], [], [], 0.5)
        if r:
            chunk = _os.read(rfd, 65536)
            if not chunk:
                done = True
            buf += chunk
            while b"\n" in buf:
                line, buf = buf.split(b"\n", 1)
                parts = line.decode().split(" ", 2)
                if parts[0] == "B":
                    current[0] = int(parts[1])
                    cpu_at_begin = _cpu_of(pid)
                elif parts[0] == "R":
                    results[int(parts[1])] = _json.loads(parts[2])
                    current[0] = None
            continue
        if current[0] is not None and (_cpu_of(pid) - cpu_at_begin > cpu_limit or _time.time() - t0 > 40 * cpu_limit):
            results[current[0]] = {"status": "wall", "wall": cpu_limit}
            break
    try:
        _os.kill(pid, _signal.SIGKILL)
    except ProcessLookupError:
        pass
    try:
        _os.waitpid(pid, 0)
    except ChildProcessError:
        pass
    _os.close(rfd)
    return results


def _cpu_of(pid):
    import os as _os
    try:
        with open("/proc/%d/stat" % pid) as f:
            parts = f.read().rsplit(")", 1)[1].split()
        return (int(parts[11]) + int(parts[12])) / float(_os.sysconf("SC_CLK_TCK"))
    except (OSError, IndexError, ValueError):
        return 0.0


def step_bound(n):
    return 1000 + 60 * n + 8 * n * n


class C03(Check):
    prop = "C03"
    quick_runs = 128
    thorough_runs = 3000
    run_wall = 600.0
    rule = ("one run = a live node brought to one of {server awaiting CER, client awaiting CEA, Open idle with a parked "
            "consumer, Open with traffic, Closing}, then <= 6 malformed byte strings (seeded mutations of well-formed "
            "messages, optionally surrounded by valid ones) injected by the peer with seeded segmentation under a seeded "
            "schedule, then API probes; every string is also given to DiameterMessage.load under the step meter; "
            "distinct = distinct (state, mutation kinds, schedule signature); non-trivial = every run (each injects at "
            "least one malformed string into a live connection)")
    components_real = ["DiameterMessage.load / DiameterAVP.load / typed AVP constructors", "receive worker, state machine, validators",
                       "transport, send path, public API (get_current_state, send_message, close, get_message)"]
    components_stub = ["OS sockets/selectors/threads/clock (simkit)", "remote peer (ref.peer.ScriptedPeer)"]
    assumptions = ["the node is not required to keep the connection usable after garbage: closing cleanly is accepted",
                   "decoder step bound 1000 + 60*len + 8*len^2 source-line steps (clamped to the hang cap of 2M)",
                   "the decoder sub-check is input sampling on the same corpus, not simulation; it is reported separately in the evidence"]

    def gen_scenario(self, rng, tier, index):
        state = rng.choice(STATES)
        mode = "SERVER" if state == "server_closed" else ("CLIENT" if state == "client_wicea" else rng.choice(["CLIENT", "SERVER"]))
        k = rng.choice([1, 1, 2, 3, 6])
        strings = []
        for _ in range(k):
            mut = rng.choice(MUTATIONS)
            base = rng.choice(BASES)
            if state == "server_closed" and rng.random() < 0.5:
                base = "cer"
            if state == "client_wicea" and rng.random() < 0.5:
                base = "cea"
            if state == "closing" and rng.random() < 0.5:
                base = "dpa"
            strings.append({"base": base, "mut": mut, "seed": rng.getrandbits(30), "arg": None, "flood_cap": 2500,
                            "pre_valid": rng.random() < 0.2, "post_valid": rng.random() < 0.4,
                            "gap": rng.choice([0.0, 0.0, 0.002, 0.05])})
        knobs = draw_knobs(rng)
        knobs["SLEEP_TIMER"] = rng.choice([0.1, 0.3])
        for st_ in strings:
            st_["flood_cap"] = int(max(70, min(2500, 20.0 / knobs["STATE_MACHINE_TICKER"])))
        return self._later_additions(rng, index, {"mode": mode, "state": state, "strings": strings, "sched": draw_sched(rng), "knobs": knobs,
                "answer_mode": rng.choice(["none", "dup", "bad_hbh", "bad_e2e", "late_dup"]),
                "election_first": rng.random() < 0.4,
                "net": {"max_latency": rng.choice([0.0005, 0.003]), "p_fragment": rng.choice([0.0, 0.3, 0.8]),
                        "max_fragments": rng.choice([2, 4, 12])},
                "watchdog": 30, "horizon": 120.0})

    @staticmethod
    def _later_additions(rng, index, scn):
        # later additions draw from a generator of their own (the stream above stays what it was)
        rng2 = random.Random(rng.getrandbits(48))
        if index % 8 == 5:
            # systematic: ONE otherwise valid application message reaches the application (Open, consumer parked)
            # with exactly one text-typed AVP that is not valid UTF-8; the AVP, the message kind and the presence of
            # a User-Name are swept by the run index
            k = index // 8
            codes = [C.SESSION_ID, C.ORIGIN_HOST, C.ORIGIN_REALM, C.DEST_REALM, C.DEST_HOST, C.USER_NAME, C.PRODUCT_NAME, 281]
            scn["state"] = "open"
            scn["strings"] = [{"base": ["app_req", "app_req_dh", "app_ans"][k % 3], "mut": "non_utf8", "seed": rng2.getrandbits(30),
                               "arg": codes[(k // 3) % len(codes)], "drop_user_name": (k // 24) % 2 == 0, "flood_cap": 2500,
                               "pre_valid": False, "post_valid": rng2.random() < 0.5, "gap": 0.0}]
            scn["mode"] = rng2.choice(["CLIENT", "SERVER"])
            return scn
        if index % 8 == 1:
            # systematic: a run of 15..300 well-framed messages none of which can be decoded, on an open connection
            scn["state"] = rng2.choice(["open", "open_traffic"])
            scn["strings"] = [{"base": rng2.choice(["app_req", "app_ans", "dwr", "app_req_dh"]), "mut": "junk_flood",
                               "seed": rng2.getrandbits(30), "arg": [15, 16, 17, 33, 64, 65, 300][(index // 8) % 7],
                               "flood_cap": 2500, "pre_valid": rng2.random() < 0.5, "post_valid": rng2.random() < 0.5, "gap": 0.0}]
            scn["mode"] = rng2.choice(["CLIENT", "SERVER"])
            return scn
        if rng2.random() < 0.25:
            # single-bit corruption: exactly one flag bit (V, M or P) of one AVP of an otherwise valid, fully
            # addressed request is flipped; everything else, lengths included, stays as it was
            scn["strings"][rng2.randrange(len(scn["strings"]))].update(
                {"base": "app_req_dh", "mut": "flagbit", "seed": rng2.getrandbits(30)})
        return scn

    def shrink(self, scn):
        ss = scn["strings"]
        for i in range(len(ss)):
            if len(ss) > 1:
                c = copy.deepcopy(scn)
                del c["strings"][i]
                yield c
        for i, s in enumerate(ss):
            for k in ("pre_valid", "post_valid"):
                if s.get(k):
                    c = copy.deepcopy(scn)
                    c["strings"][i][k] = False
                    yield c
        if scn["net"].get("p_fragment"):
            c = copy.deepcopy(scn)
            c["net"]["p_fragment"] = 0.0
            yield c
        if scn["state"] == "open_traffic":
            c = copy.deepcopy(scn)
            c["state"] = "open"
            yield c
            if scn.get("answer_mode", "none") != "none":
                c = copy.deepcopy(scn)
                c["answer_mode"] = "none"
                yield c

    def sample(self, scn, res):
        return {"mode": scn["mode"], "state": scn["state"],
                "strings": [{"base": s["base"], "mut": s["mut"], "hex": mutate(s, i + 1).hex()[:96]} for i, s in enumerate(scn["strings"][:3])],
                "sched": scn["sched"], "outcome": res.get("summary")}

    def run(self, scn, tape_in=None):
        state = scn["state"]
        peerb = {}
        if state == "client_wicea":
            peerb["answer_cer"] = "none"
        if state == "closing":
            peerb["answer_dpr"] = False
        nfl = sum(len(mutate(s_, i_ + 1)) // 20 for i_, s_ in enumerate(scn["strings"]) if s_["mut"] == "flood")
        njunk = sum((s_.get("arg") or 16) for s_ in scn["strings"] if s_["mut"] == "junk_flood")
        budget = {}
        if njunk:
            budget = {"horizon": scn.get("horizon", 120.0) + 60.0, "max_steps": 6_000_000 + 80_000 * njunk}
        if nfl:
            # the state machine consumes one message per tick: give the run the time and the steps for it
            budget = {"horizon": scn.get("horizon", 120.0) + 3.0 * nfl * scn["knobs"].get("STATE_MACHINE_TICKER", 0.01) + 20.0,
                      "max_steps": 6_000_000 + 2500 * nfl}
        w = WorldA(dict(scn, peer=peerb, auto_peer_cer=(state != "server_closed"), pure_line_cap=2_000_000, **budget), tape_in)
        sim = w.sim
        knobs = w.world.knobs
        tick = knobs["STATE_MACHINE_TICKER"]
        nflood = sum(len(mutate(s_, i_ + 1)) // 20 for i_, s_ in enumerate(scn["strings"]) if s_["mut"] == "flood")
        nflood += sum(40 * (s_.get("arg") or 16) for s_ in scn["strings"] if s_["mut"] == "junk_flood")
        D = knobs["SLEEP_TIMER"] + 2 * knobs["TRACKING_SOCKET_EVENTS_TIMEOUT"] + 2.0 + 40 * tick + 400000 * sim.quantum + \
            nflood * (600 * sim.quantum + 1.2 * tick)
        violations = []
        st = {"reached": False, "decoder": {"returned": 0, "library_error": 0, "max_steps_per_byte": 0.0}}
        blobs = [mutate(s, i + 1) for i, s in enumerate(scn["strings"])]
        live_blobs = [mutate(s, i + 1, live=True) for i, s in enumerate(scn["strings"])]
        import bromelia.exceptions as E
        libtypes = tuple(c for c in vars(E).values() if isinstance(c, type) and issubclass(c, BaseException))
        ctxs = "%s/%s" % (scn["mode"].lower(), state)

        def viol(clause, sig, detail):
            violations.append({"clause": clause, "sig": "C03/%s" % sig, "detail": detail})

        unsafe_live = set()     # blobs whose decoding does not terminate must not be fed to the live node

        def decoder_subcheck_outside(i, blob):
            bound = min(step_bound(len(blob)), 2_000_000)
            r_ = decode_in_grandchild(blob, bound)
            stt = r_.get("status")
            if stt == "returned":
                st["decoder"]["returned"] += 1
            elif stt == "library":
                st["decoder"]["library_error"] += 1
            elif stt in ("steps", "wall"):
                unsafe_live.add(i)
                viol("decoding terminates within a step bound that depends only on the input's length",
                     "decoder/hang/%s" % scn["strings"][i]["mut"],
                     {"len": len(blob), "bound": bound, "how": "step bound exceeded" if stt == "steps" else
                      "still running after %.0f s of CPU time without reaching the step bound (C-level loop)" % r_.get("wall", 0),
                      "hex": blob.hex()[:200], "mutation": scn["strings"][i]})
            else:
                viol("decoding either returns messages or raises one of the library's own error types",
                     "decoder/leak/%s" % (r_.get("type"),),
                     {"len": len(blob), "error": "%s: %s" % (r_.get("type"), r_.get("msg")), "where": r_.get("where"),
                      "hex": blob.hex()[:200], "mutation": scn["strings"][i]})
            if len(blob) and "steps" in r_:
                st["decoder"]["max_steps_per_byte"] = max(st["decoder"]["max_steps_per_byte"], r_["steps"] / len(blob))

        for i_, b_ in enumerate(blobs):
            if len(b_) <= 20000:
                decoder_subcheck_outside(i_, b_)

        # systematic part of the decoder sub-check: (dictionary AVP class x adversarial payload), enumerated by
        # the run index so that one quick batch covers the whole table
        table = _dictionary_codes()
        npay = 17
        total = len(table) * npay
        per_run = scn.get("sweep_per_run", 40)
        start = (scn.get("index", 0) * per_run) % total
        sweep_blobs = []
        for j in range(per_run):
            k = (start + j) % total
            sweep_blobs.append((k, typed_garbage_message(k // npay, k % npay, j)))
        # ... and (Grouped AVP class x legal self-nesting), three classes per run
        for j in range(3):
            gi = scn.get("index", 0) * 3 + j
            nb = nested_group_message(gi, [12, 16, 20][j], j)
            if nb is not None:
                sweep_blobs.append((-1 - gi, nb))
        res = decode_many_in_grandchild([b for _, b in sweep_blobs], [min(step_bound(len(b)), 2_000_000) for _, b in sweep_blobs])
        st["decoder"]["sweep"] = len([r_ for r_ in res if r_ is not None])
        for (k, b), r_ in zip(sweep_blobs, res):
            if r_ is None:
                continue
            if k < 0:
                gv, gc_, _ = _grouped_types()[(-1 - k) % len(_grouped_types())]
                vendor, code = gv, gc_
                where = {"avp_code": code, "vendor": vendor, "payload": "legal self-nesting", "len": len(b)}
            else:
                vendor, code = table[k // npay]
                where = {"avp_code": code, "vendor": vendor, "payload_index": k % npay, "hex": b.hex()[-80:]}
            if r_["status"] in ("steps", "wall"):
                viol("decoding terminates within a step bound that depends only on the input's length",
                     "decoder/hang/typed-avp", dict(where, how=r_["status"]))
                break
            if r_["status"] == "leak":
                viol("decoding either returns messages or raises one of the library's own error types",
                     "decoder/leak/%s" % r_.get("type"), dict(where, error="%s: %s" % (r_.get("type"), r_.get("msg")), where=r_.get("where")))
                break

        def decoder_subcheck(i, blob):
            from bromelia.base import DiameterMessage
            me = sim.cur
            before = sim.line_steps
            bound = min(step_bound(len(blob)), 2_000_000)
            sim.pure_line_cap = bound
            me.lines_since_prim = 0
            try:
                DiameterMessage.load(blob)
                st["decoder"]["returned"] += 1
            except SimHang:
                viol("decoding terminates within a step bound that depends only on the input's length",
                     "decoder/hang/%s" % scn["strings"][i]["mut"],
                     {"len": len(blob), "bound": bound, "hex": blob.hex()[:200], "mutation": scn["strings"][i]})
            except libtypes:
                st["decoder"]["library_error"] += 1
            except BaseException as e:      # noqa
                if type(e).__name__ == "SimStop":
                    raise
                import traceback
                tb = traceback.extract_tb(e.__traceback__)[-1]
                viol("decoding either returns messages or raises one of the library's own error types",
                     "decoder/leak/%s" % (type(e).__name__,),
                     {"len": len(blob), "error": "%s: %s" % (type(e).__name__, str(e)[:160]),
                      "where": "%s:%d" % (tb.filename.split("/")[-1], tb.lineno), "hex": blob.hex()[:200],
                      "mutation": scn["strings"][i]})
            finally:
                sim.pure_line_cap = 2_000_000
            used = sim.line_steps - before
            if len(blob):
                st["decoder"]["max_steps_per_byte"] = max(st["decoder"]["max_steps_per_byte"], used / len(blob))

        def growth_subcheck(i, spec):
            """'grows without bound': decoding fresh inputs of the same shape again and again must not
            keep accumulating memory (measured with tracemalloc after a warm-up round)."""
            import gc
            import tracemalloc
            from bromelia.base import DiameterMessage
            sim.pure_line_cap = 2_000_000

            def round_(k):
                sp = dict(spec, seed=spec["seed"] + 7919 * (k + 1))
                try:
                    with sim.untraced():
                        DiameterMessage.load(mutate(sp, i + 1))
                except BaseException as e:      # noqa
                    if type(e).__name__ in ("SimStop", "SimHang"):
                        raise
            round_(0)
            round_(1)
            gc.collect()
            tracemalloc.start()
            base0 = tracemalloc.get_traced_memory()[0]
            for k in range(2, 8):
                round_(k)
            gc.collect()
            grown = tracemalloc.get_traced_memory()[0] - base0
            tracemalloc.stop()
            st["decoder"]["retained_bytes_after_6_rounds"] = grown
            if grown > 40000:
                viol("decoding never grows without bound", "decoder/growth/%s" % spec["mut"],
                     {"retained_bytes_after_6_fresh_inputs": grown, "mutation": spec})

        def main(sim):
            from bromelia.base import DiameterRequest
            from bromelia.avps import SessionIdAVP, OriginHostAVP, OriginRealmAVP, DestinationRealmAVP
            # (e) decoder sub-check, in its own simulated thread (so that a hang is cut by the meter)
            def dec():
                for i, sp in enumerate(scn["strings"]):
                    if sp["mut"] == "vendor_flood":
                        growth_subcheck(i, sp)
                        break
            t = sim.spawn(dec, role="X:decoder")
            while t.state != "done" and not sim.halted:
                t.join(timeout=5.0)
            # ---- bring the node to the state ---------------------------------
            w.start_node()
            if state == "server_closed":
                ok = sim.wait_until(lambda: w.peer.sock is not None and w.peer.sock.state == "connected", 10.0, poll=tick)
                sim.sleep(3 * tick)
            elif state == "client_wicea":
                ok = sim.wait_until(lambda: any(m["code"] == C.CE for m in w.peer.rx), 10.0, poll=tick)
            else:
                ok = w.wait_state(("I-Open", "R-Open"), 20.0)
            if not ok:
                return
            consumer = None
            if state in ("open", "open_traffic", "closing"):
                consumer = w.start_consumer()
                sim.sleep(5 * tick)
            if state == "open_traffic":
                amode = scn.get("answer_mode", "none")

                def answer_node_requests(m):
                    if not C.is_request(m) or m["code"] in (C.CE, C.DW, C.DP) or amode == "none":
                        return
                    sess = C.find(m, C.SESSION_ID)
                    hb, ee = m["hbh"], m["e2e"]
                    a = lambda h, e: C.app_answer(m["app"], m["code"], h, e, sess[3] if sess else b"s;0;0", PEER_HOST, PEER_REALM)
                    if amode == "dup":
                        w.peer.send(a(hb, ee))
                        w.peer.send(a(hb, ee))
                    elif amode == "bad_hbh":
                        w.peer.send(a(hb ^ 0x00010000, ee))
                    elif amode == "bad_e2e":
                        w.peer.send(a(hb, ee ^ 0x00000100))
                    elif amode == "late_dup":
                        w.peer.send(a(hb, ee))
                        sim.after(5 * tick, lambda: w.peer.send(a(hb, ee)))
                w.peer.on_message = answer_node_requests

                def submit():
                    for i in range(4):
                        w.node.send_message(DiameterRequest(application_id=APP_ID, command_code=316, avps=[
                            SessionIdAVP(("n;5;%d" % i).encode()), OriginHostAVP(NODE_HOST),
                            OriginRealmAVP(NODE_REALM), DestinationRealmAVP(PEER_REALM)]))
                        sim.sleep(2 * tick)
                w.call("submitter", submit)
                for i in range(3):
                    w.peer.send(C.app_request(APP_ID, 316, 0x7a00 + i, 0x7b00 + i, "p;9;%d" % i, PEER_HOST, PEER_REALM, NODE_REALM))
            if state == "closing":
                w.call("close", w.node.close)
                w.wait_state(("Closing",), 5.0)
            if state == "client_wicea" and scn.get("election_first"):
                # the peer starts an election first (a valid CER while we await its CEA)
                w.peer.send(C.cer(PEER_HOST, PEER_REALM, hbh=0x7e01, e2e=0x7e02))
                sim.sleep(6 * tick)
            st["reached"] = True
            st["state_before"] = w.state()
            # ---- inject ---------------------------------------------------------
            for i, (s, blob) in enumerate(zip(scn["strings"], live_blobs)):
                if s["gap"]:
                    sim.sleep(s["gap"])
                if s["pre_valid"]:
                    w.peer.send(C.dwr(PEER_HOST, PEER_REALM, hbh=0x7c00 + i, e2e=0x7c00 + i))
                if blob and i not in unsafe_live:
                    w.peer.send_raw(blob, label=s["mut"])
                if s["post_valid"]:
                    w.peer.send(C.dwr(PEER_HOST, PEER_REALM, hbh=0x7d00 + i, e2e=0x7d00 + i))
            sim.wait_until(lambda: w.peer.sock is None or w.peer.sock.inflight == 0, 5.0)
            sim.sleep(D)
            st["state_after"] = w.state()
            # ---- (c) probes: local API calls return ---------------------------------
            probes = []
            probes.append(w.call("probe_state", w.node.get_current_state))
            probes.append(w.call("probe_send", lambda: w.node.send_message(DiameterRequest(
                application_id=APP_ID, command_code=316, avps=[SessionIdAVP(b"n;6;1"), OriginHostAVP(NODE_HOST),
                                                               OriginRealmAVP(NODE_REALM), DestinationRealmAVP(PEER_REALM)]))))
            sim.wait_until(lambda: all(p["t1"] is not None for p in probes), D, poll=D / 40.0)
            pc = w.call("probe_close", w.node.close)
            probes.append(pc)
            sim.wait_until(lambda: pc["t1"] is not None, D, poll=D / 40.0)
            for p in probes:
                if p["t1"] is None and not sim.halted:
                    th = p["thread"]
                    viol("local API calls still return", "api-call-blocked/%s/%s" % (p["role"], ctxs),
                         {"call": p["role"], "blocked_on": repr(th.wait_on), "state": w.state(),
                          "lock_owners": _locks(w)})
            # the close probe may legitimately start a DPR/DPA exchange: let the peer finish it
            if pc["ok"]:
                w.peer.b["answer_dpr"] = True
                dprs = [m for m in w.peer.rx if m["code"] == C.DP and C.is_request(m)]
                if dprs and w.peer.sock is not None and w.peer.sock.state == "connected":
                    w.peer.send(C.dpa(PEER_HOST, PEER_REALM, hbh=dprs[-1]["hbh"], e2e=dprs[-1]["e2e"]))
                    w.peer.close()
                sim.sleep(D)
            # whatever happened, a node that is going down gets D to finish doing so
            def _settled():
                if w.state() != "Closed":
                    return False
                return all(t.state == "done" for t in w.lib_threads()) and \
                    all(s_.state == "closed" and not s_.selectors for s_ in w.node_socks())
            if not pc["ok"] or w.state() == "Closed":
                sim.wait_until(_settled, D, poll=D / 40.0)
            # ---- (a) workers survive or the connection is closed cleanly ----------------
            final = w.state()
            libs = w.lib_threads()
            cur = [t for t in libs if t.state != "done"]
            died = [(t.role, "%s: %s" % (type(e).__name__, str(e)[:120])) for t, e in sim.thread_exceptions if t.library]
            socks_open = [(s_.name, s_.state, len(s_.selectors)) for s_ in w.node_socks() if s_.state != "closed" or s_.selectors]
            released = not cur and not socks_open
            if final == "Closed" and released:
                pass        # closed cleanly
            else:
                # the node is (or claims to be) still in business: a server that reports Closed while it
                # awaits a CER on an accepted connection belongs here too -- all three workers must be alive
                need = {"psm": False, "transport": False, "recv": False}
                for t in cur:
                    if "psm_thread" in t.role:
                        need["psm"] = True
                    if "transport_layer_thread" in t.role:
                        need["transport"] = True
                    if "recv_message_monitor" in t.role:
                        need["recv"] = True
                if not all(need.values()):
                    dead_kind = sorted(k for k, v in need.items() if not v)
                    first = died[0][1].split(":")[0] if died else "exited"
                    viol("its worker threads survive or the connection is closed cleanly (node reports %s)" % final,
                         "worker-died/%s/%s/%s" % ("+".join(dead_kind), first, ctxs),
                         {"state": final, "alive": need, "thread_exceptions": died[:4],
                          "threads": [(t.role, t.state, repr(t.wait_on)) for t in cur], "sockets": socks_open})
            # ---- (b) no internal lock left held -------------------------------------------
            for nm, owner, since in _locks(w):
                ot = [t for t in sim.threads if t.role == owner]
                dead_owner = bool(ot) and ot[0].state == "done"
                if dead_owner or (since is not None and sim.now - since > D):
                    viol("no internal lock is left held", "lock-held/%s/%s" % (nm, ctxs),
                         {"lock": nm, "owner": owner, "owner_dead": dead_owner, "held_for": None if since is None else sim.now - since})
            # ---- (d) no thread computes forever ----------------------------------------------
            for t in sim.hangs:
                if t.role != "X:decoder":
                    viol("the node never hangs on input", "hang/%s/%s" % (t.role.split("#")[0], ctxs), {"thread": t.role, "exc": str(t.exc)[:200]})

        sim.run_main(main)
        if sim.halt_reason == "max_steps" and not violations:
            violations.append({"clause": "the node never hangs on input", "sig": "C03/step-budget-exhausted/%s" % ctxs,
                               "detail": {"steps": sim.steps, "threads": [(t.role, t.state, repr(t.wait_on)) for t in sim.threads]}})
        sigs = set()
        uniq = []
        for v in violations:
            if v["sig"] not in sigs:
                sigs.add(v["sig"])
                uniq.append(v)
        faults = {"state:" + state: 1, "preemption_in_bromelia_code": sim.preempt_line + sim.preempt_opcode,
                  "fragmented_segments": w.net.stats["fragmented"]}
        for s in scn["strings"]:
            faults["mutation:" + s["mut"]] = faults.get("mutation:" + s["mut"], 0) + 1
        import hashlib
        sig = hashlib.sha256(repr((state, [s["mut"] for s in scn["strings"]], sim.sched_sig.hexdigest())).encode()).hexdigest()[:16]
        return base_result(sim, uniq if st["reached"] or uniq else [],
                           summary={"reached": st["reached"], "state_before": st.get("state_before"),
                                    "state_after": st.get("state_after"), "decoder": st["decoder"]},
                           extra={"abstract_states": sorted(w.abstract_states), "faults": faults, "sched_sig": sig})


def _locks(w):
    out = []
    a = w.node._association
    for obj, names in ((a, ("lock", "postprocess_recv_messages_lock")),
                       (getattr(a, "transport", None) if a is not None else None, ("lock", "_recv_data_lock"))):
        if obj is None:
            continue
        for nm in names:
            lk = getattr(obj, nm, None)
            if lk is not None and getattr(lk, "_locked", False):
                out.append(("%s.%s" % (type(obj).__name__, nm), lk._owner.role if lk._owner else None, lk.held_since))
    return out


CHECK = C03()
