# -*- coding: utf-8 -*-
"""
C13 -- Each request reaches its registered handler and always gets exactly one
answer.

World B1.  Route tables for 1..3 applications x 1..4 command codes (codes
shared across applications) registered with the real decorator; r <= 16
requests arriving at seeded times, many in flight at once; per request a
handler outcome (typed answer, generic answer, None, wrong type, standard
exception, slow).  Handler failure is a fault injected into the dispatch
pipeline; "exactly one answer" is an exactly-once claim over it.
"""

import copy
import random

from simkit.driver import Check, base_result
from ref import codec as C
from checks.worldb import (WorldB, WorldB2, draw_full_stack, APPS, draw_sched_b, draw_knobs_b, LOCAL_HOST,
                           LOCAL_REALM, PEER_HOST, PEER_REALM)

CODES = [316, 318, 274, 275, 272, 258]
OUTCOMES = ["typed", "generic", "generic", "none", "wrong_req", "wrong_str", "raise_value", "raise_key",
            "raise_zero", "slow", "slow_none", "slow_raise_value", "slow_wrong_str", "slow_typed"]
FAIL = ("none", "wrong_req", "wrong_str", "raise_value", "raise_key", "raise_zero",
        "slow_none", "slow_raise_value", "slow_wrong_str")
TAG = 99999


class C13(Check):
    prop = "C13"
    quick_runs = 128
    thorough_runs = 3000
    run_wall = 600.0
    rule = ("one run = a route table (1..3 applications on 1..2 workers x 1..4 command codes, codes shared across "
            "applications, registered with the real @app.route) and <= 16 requests arriving at seeded times, each with a "
            "handler outcome (typed / generic answer, None, wrong type, ValueError / KeyError / ZeroDivisionError, slow), "
            "under a seeded schedule with per-run barrier sizes and timers; distinct = distinct schedule signature; "
            "non-trivial = at least two requests in flight at once or at least one handler-failure outcome")
    components_real = ["Bromelia.route / get_request_callback / callback_route / create_error_answer / decorate_answer / send_message / main",
                       "Worker (queues, locks, recv_handler, send_handler)", "threading.Barrier batching (CPython source on the simulated lock)"]
    components_stub = ["three runs in four (world B1): the connection object underneath Worker is a StubConnection instead of a "
                       "Diameter, and the harness starts recv_handler/send_handler/main directly",
                       "one run in four (world B2, full stack): nothing between the handlers / callers and the wire is a stub -- "
                       "Bromelia.run, _run, Worker.run, Diameter.context, DiameterAssociation, PeerStateMachine, TcpClient run "
                       "as shipped on the simulated OS, a scripted reference peer is the remote end",
                       "multiprocessing.Manager -> in-process simulated primitives; Worker.start runs Worker.run as a simulator thread"]
    assumptions = ["every request carries a Session-Id, Origin-Host and Origin-Realm (the fallback answer copies them)",
                   "requests for unregistered (application, command) pairs: only 'no handler runs' is demanded",
                   "D = 2 s + polling intervals of the run, after the handler finished"]

    def gen_scenario(self, rng, tier, index):
        nworkers = rng.choice([1, 1, 2])
        napps = rng.choice([1, 2, 3]) if nworkers == 1 else rng.choice([2, 3])
        app_idx = rng.sample(range(len(APPS)), napps)
        if nworkers == 1:
            apps_per_worker = [app_idx]
        else:
            apps_per_worker = [app_idx[:1], app_idx[1:]]
        routes = []
        for ai in app_idx:
            for code in rng.sample(CODES, rng.randint(1, 4)):
                routes.append([ai, code])
        nreq = rng.randint(1, 8 if tier == "quick" else 16)
        reqs = []
        t = 0.0
        for i in range(nreq):
            if rng.random() < 0.85 and routes:
                ai, code = rng.choice(routes)
                registered = True
            else:
                ai = rng.choice(app_idx)
                code = rng.choice([c for c in CODES + [999] if [ai, c] not in routes] or [999])
                registered = False
            t += rng.choice([0.0, 0.0, 0.0, 0.0005, 0.003, 0.02])
            reqs.append({"app": ai, "code": code, "registered": registered, "t": t,
                         "outcome": rng.choice(OUTCOMES), "slow": rng.choice([0.002, 0.01, 0.05]),
                         "dhost": rng.random() < 0.5})
        knobs = draw_knobs_b(rng)
        knobs["REQUEST_THRESHOLD"] = rng.choice([40, 40, 2, 3])
        knobs["SEND_THRESHOLD"] = rng.choice([50, 50, 2, 3])
        # the application tries to send on an association that is not open yet (the call returns None),
        # the association opens afterwards: nothing of that may be remembered
        early = rng.random() < 0.3
        # the application itself has a request outstanding (waiting for its answer) whose Hop-by-Hop
        # identifier happens to equal the one the peer chose for one of its requests
        local_pending = rng.random() < 0.25
        scn = {"apps_per_worker": apps_per_worker, "routes": routes, "reqs": reqs, "early_send": early, "local_pending": local_pending,
               "sched": draw_sched_b(rng), "knobs": knobs, "horizon": 40.0}
        # later additions draw from a generator of their own (the stream above stays what it was)
        rng2 = random.Random(rng.getrandbits(48))
        # a second Bromelia object lives in the same process and registers handlers of its own for the same
        # (and for more) command pairs, before or after this one does: none of them may ever run here
        scn["second_app"] = rng2.choice([None, None, "before", "after"])
        # re-entrancy: a handler that itself sends a request through the application object and waits for its
        # answer before it answers the request it was called for
        if index % 16 == 13 and routes:
            # volume: hundreds of requests through the same application object (per-message thread names and
            # counters, barriers tripping many times over, tables that are never trimmed)
            nvol = rng2.choice([150, 300, 500])
            del reqs[:]
            t = 0.0
            for i in range(nvol):
                ai, code = rng2.choice(routes)
                t += rng2.choice([0.0, 0.0005, 0.002])
                reqs.append({"app": ai, "code": code, "registered": True, "t": t,
                             "outcome": rng2.choice(["generic", "generic", "generic", "typed", "raise_value", "none"]),
                             "slow": 0.002, "dhost": rng2.random() < 0.5})
            scn["max_steps"] = 16_000_000
            scn["horizon"] = 120.0
            scn["early_send"] = False
            knobs["BROMELIA_TICKER"] = max(knobs["BROMELIA_TICKER"], 0.0005)
        elif index % 4 == 3:
            # full stack (world B2): Bromelia.run() -> Worker.run() -> Diameter.context() -> real nodes on the
            # simulated network; requests arrive on the wire (segmented), answers are read off the wire
            draw_full_stack(rng2, scn)
            scn["early_send"] = False
        scn["slow_worker"] = None
        if index % 10 == 6 and not scn.get("full_stack") and index % 16 != 13:
            # slow parties: a handler that takes a round number of seconds (give or take milliseconds), and / or a
            # connection worker that is descheduled for seconds while it hands one answer to the connection and other
            # answers are due.  Coarse tickers keep the simulated seconds cheap.
            rng5 = random.Random(rng2.getrandbits(48))
            cand = [r for r in reqs if r["registered"]]
            for r in rng5.sample(cand, min(len(cand), rng5.choice([1, 1, 2]))):
                base_ = r["outcome"] if r["outcome"] in ("generic", "typed", "none", "raise_value") else "generic"
                r["outcome"] = "slow_" + base_
                r["slow"] = rng5.choice([1.0, 5.0, 10.0, 30.0, 60.0]) + rng5.choice([-0.002, 0.0, 0.002, 0.02, 0.04])
            if rng5.random() < 0.6:
                scn["slow_worker"] = {"at_answer": rng5.randrange(1, 4), "dur": rng5.choice([0.5, 2.0, 6.0, 12.0])}
            knobs.update({"BROMELIA_TICKER": 0.02, "PROCESS_TIMER": rng5.choice([0.02, 0.2]), "SEND_THRESHOLD_TICKER": 0.05})
            scn["early_send"] = False
            scn["horizon"] = 240.0
            scn["max_steps"] = 12_000_000
        for r in reqs:
            if r["registered"] and r["outcome"] in ("generic", "typed") and rng2.random() < 0.2:
                r["outcome"] = "nested"
                r["nested_delay"] = rng2.choice([0.0, 0.001, 0.01])
        return scn

    def shrink(self, scn):
        rq = scn["reqs"]
        for i in range(len(rq)):
            if len(rq) > 1:
                c = copy.deepcopy(scn)
                del c["reqs"][i]
                yield c
        for i, r in enumerate(rq):
            if r["outcome"] not in ("generic",):
                c = copy.deepcopy(scn)
                c["reqs"][i]["outcome"] = "generic"
                yield c
            if r["t"]:
                c = copy.deepcopy(scn)
                c["reqs"][i]["t"] = 0.0
                yield c
        used = set((r["app"], r["code"]) for r in rq)
        for i, rt in enumerate(scn["routes"]):
            if tuple(rt) not in used and len(scn["routes"]) > 1:
                c = copy.deepcopy(scn)
                del c["routes"][i]
                yield c
        for k in ("early_send", "local_pending"):
            if scn.get(k):
                c = copy.deepcopy(scn)
                c[k] = False
                yield c
        for k, v in (("REQUEST_THRESHOLD", 40), ("SEND_THRESHOLD", 50)):
            if scn["knobs"].get(k) != v:
                c = copy.deepcopy(scn)
                c["knobs"][k] = v
                yield c

    def nontrivial(self, res):
        return res.get("max_inflight", 0) >= 2 or res.get("failures", 0) > 0

    def sample(self, scn, res):
        return {"apps_per_worker": scn["apps_per_worker"], "routes": scn["routes"], "reqs": scn["reqs"][:8],
                "knobs": scn["knobs"], "sched": scn["sched"], "outcome": res.get("summary")}

    def run(self, scn, tape_in=None):
        wb = WorldB2(scn, tape_in) if scn.get("full_stack") else WorldB(scn, tape_in)
        sim = wb.sim
        knobs = wb.world.knobs
        D = 2 * wb.latency() + 2.0 + 200 * knobs["BROMELIA_TICKER"] + 100 * knobs["PROCESS_TIMER"] + 20 * knobs["SEND_THRESHOLD_TICKER"] + \
            400000 * sim.quantum
        violations = []
        invocations = []        # (route key, request hbh, step)
        finished = {}           # hbh -> time handler finished
        stats = {"max_inflight": 0, "failures": 0, "answers": 0, "requests": len(scn["reqs"])}

        def main(sim):
            import bromelia.bromelia as bro
            from bromelia.base import DiameterAnswer, DiameterRequest
            from bromelia.avps import SessionIdAVP, ResultCodeAVP, OriginHostAVP, OriginRealmAVP
            from bromelia.constants import DIAMETER_SUCCESS
            from bromelia.lib.etsi_3gpp_s6a.messages import UpdateLocationAnswer, AuthenticationInformationAnswer
            typed = {(16777251, 316): UpdateLocationAnswer, (16777251, 318): AuthenticationInformationAnswer}
            app = wb.build(scn["apps_per_worker"])
            plan = {}       # request hbh (bytes) -> spec
            inflight = set()

            nested = {}
            nested_bad = []

            answers_seen = [0]

            def on_send_nested(stub, msg, raw):
                # the peer answers the requests the handlers send
                if not msg.header.is_request():
                    answers_seen[0] += 1
                    sw = scn.get("slow_worker")
                    if sw and answers_seen[0] == sw["at_answer"] and not wb.full_stack:
                        # stalled-thread fault: the worker's send thread is descheduled while it holds the hand-over
                        t_ = sim.cur
                        sim.stalled[t_.tid] = max(sim.stalled.get(t_.tid, 0.0), sim.now + sw["dur"])
                        sim.stalls_fired += 1
                        sim.log("stall", t_.role, sw["dur"])
                        sim.probe("slow_worker")
                    return
                d = nested.get(msg.header.hop_by_hop.hex())
                if d is None:
                    return
                m_ = C.dec_msg(raw)
                ans_ = C.enc_msg(C.app_answer(m_["app"], m_["code"], m_["hbh"], m_["e2e"], b"nested;ans", PEER_HOST, PEER_REALM))
                sim.after(d, lambda: stub.arrive(ans_))
            for st_ in wb.stubs:
                st_.on_send = on_send_nested

            def make_handler(ai, code):
                appid = APPS[ai][2]
                key = (appid, code)

                def handler(request):
                    hb = request.header.hop_by_hop
                    invocations.append((key, hb.hex(), sim.steps))
                    inflight.add(hb)
                    stats["max_inflight"] = max(stats["max_inflight"], len(inflight))
                    spec = plan.get(hb, {"outcome": "generic"})
                    out = spec["outcome"]
                    try:
                        if out.startswith("slow"):
                            # the handler overlaps the dispatch of later requests, then succeeds or fails
                            sim.sleep(spec["slow"])
                            out = out[5:] or "generic"
                        if out == "nested":
                            from bromelia.avps import DestinationRealmAVP as _DRA
                            nreq = DiameterRequest(application_id=appid, command_code=316, avps=[
                                SessionIdAVP(b"nested;" + hb.hex().encode()), OriginHostAVP(LOCAL_HOST),
                                OriginRealmAVP(LOCAL_REALM), _DRA(PEER_REALM)])
                            nested[nreq.header.hop_by_hop.hex()] = spec.get("nested_delay", 0.0)
                            stats["nested_sends"] = stats.get("nested_sends", 0) + 1
                            got = app.send_message(nreq)
                            if got is None or got.header.hop_by_hop != nreq.header.hop_by_hop:
                                nested_bad.append((hb.hex(), None if got is None else got.header.hop_by_hop.hex()))
                            out = "generic"
                        if out == "none":
                            return None
                        if out == "wrong_req":
                            return request
                        if out == "wrong_str":
                            return "DIAMETER_SUCCESS"
                        if out == "raise_value":
                            raise ValueError("handler failed")
                        if out == "raise_key":
                            raise KeyError("missing")
                        if out == "raise_zero":
                            return 1 // 0
                        if out == "typed" and key in typed:
                            return typed[key](result_code=DIAMETER_SUCCESS)
                        return DiameterAnswer(command_code=code, application_id=appid, avps=[
                            SessionIdAVP(b"placeholder;0;0"), ResultCodeAVP(DIAMETER_SUCCESS),
                            OriginHostAVP(LOCAL_HOST), OriginRealmAVP(LOCAL_REALM)])
                    finally:
                        inflight.discard(hb)
                        finished[hb.hex()] = sim.now
                handler.__name__ = "route_%d_%d" % (appid, code)
                return handler

            def register_foreign():
                app2 = wb.build_second_app(scn["apps_per_worker"])
                for ai in sorted(set(i for idxs in scn["apps_per_worker"] for i in idxs)):
                    for code in CODES:
                        def foreign(request, ai=ai, code=code):
                            invocations.append((("foreign", APPS[ai][2], code), request.header.hop_by_hop.hex(), sim.steps))
                            return DiameterAnswer(command_code=code, application_id=APPS[ai][2], avps=[
                                SessionIdAVP(b"foreign;0;0"), ResultCodeAVP(DIAMETER_SUCCESS),
                                OriginHostAVP(LOCAL_HOST), OriginRealmAVP(LOCAL_REALM)])
                        foreign.__name__ = "foreign_%d_%d" % (APPS[ai][2], code)
                        app2.route(application_id=APPS[ai][2].to_bytes(4, "big"),
                                   command_code=code.to_bytes(3, "big"))(foreign)
                stats["second_app"] = 1
                return app2
            app2 = register_foreign() if scn.get("second_app") == "before" else None
            for ai, code in scn["routes"]:
                app.route(application_id=APPS[ai][2].to_bytes(4, "big"),
                          command_code=code.to_bytes(3, "big"))(make_handler(ai, code))
            if scn.get("second_app") == "after":
                app2 = register_foreign()
            if scn.get("early_send"):
                from bromelia.avps import DestinationRealmAVP
                for w_ in wb.workers:
                    w_.is_open.clear()
                for ai in set(r["app"] for r in scn["reqs"]):
                    early_req = DiameterRequest(application_id=APPS[ai][2], command_code=316, avps=[
                        SessionIdAVP(b"early;0;0"), OriginHostAVP(LOCAL_HOST), OriginRealmAVP(LOCAL_REALM),
                        DestinationRealmAVP(PEER_REALM)])
                    rec = wb.call("early_sender", app.send_message, early_req)
                    sim.wait_until(lambda: rec["t1"] is not None, 2.0, poll=0.001)
            wb.start()
            if wb.full_stack:
                if not (wb.workers and all(w.is_open.is_set() for w in wb.workers)):
                    sim.probe("b2_not_open")
                    stats["not_started"] = 1
                    return None
                sim.probe("b2_open")
            # which stub serves which application
            stub_of = {}
            for wi, idxs in enumerate(scn["apps_per_worker"]):
                for ai in idxs:
                    stub_of[ai] = wb.stubs[wi]
            if scn.get("local_pending") and scn["reqs"]:
                from bromelia.base import DiameterHeader
                from bromelia.avps import DestinationRealmAVP as _DR
                r0 = scn["reqs"][0]
                hdr = DiameterHeader(application_id=APPS[r0["app"]][2].to_bytes(4, "big"), command_code=(317).to_bytes(3, "big"),
                                     hop_by_hop=(0x33000000).to_bytes(4, "big"), end_to_end=(0x55000000).to_bytes(4, "big"))
                local_req = DiameterRequest(header=hdr, avps=[SessionIdAVP(b"local;0;0"), OriginHostAVP(LOCAL_HOST),
                                                              OriginRealmAVP(LOCAL_REALM), _DR(PEER_REALM)])
                wb.call("local_sender", app.send_message, local_req)
                sim.sleep(0.005)
            t0 = sim.now + 0.01
            for i, r in enumerate(scn["reqs"]):
                hb = 0x33000000 + i
                ee = 0x44000000 + i
                m = C.app_request(APPS[r["app"]][2], r["code"], hb, ee, "peer;4;%d" % i, PEER_HOST, PEER_REALM,
                                  LOCAL_REALM, dhost=LOCAL_HOST if r["dhost"] else None,
                                  extra=[(TAG, 0, None, ("q%03d" % i).encode())])
                plan[hb.to_bytes(4, "big")] = r
                r["_hbh"], r["_e2e"], r["_sess"] = hb, ee, ("peer;4;%d" % i).encode()
                raw = C.enc_msg(m)
                sim.at(t0 + r["t"], lambda raw=raw, st=stub_of[r["app"]]: st.arrive(raw))
                if r["outcome"] in FAIL and r["registered"]:
                    stats["failures"] += 1
            last = t0 + max([r["t"] for r in scn["reqs"]] + [0.0])
            sim.wait_until(lambda: False, max(0.0, last - sim.now))
            reg = [r for r in scn["reqs"] if r["registered"]]

            def all_answered():
                n = 0
                for st_ in wb.stubs:
                    n += sum(1 for s in st_.sent if not s[3].header.is_request())
                return n >= len(reg) and len(finished) >= len(reg)
            # liveness is judged at quiescence, not at a fixed instant: keep waiting while the application is
            # still making progress (handlers starting / finishing, answers leaving); the verdict is taken once
            # everything is answered or nothing has moved for D (+ the handlers' own sleeps).  A run whose step or
            # time budget runs out first is inconclusive for the liveness clauses.
            quiet = ((scn.get("slow_worker") or {}).get("dur") or 0.0) + D + max([r["slow"] for r in scn["reqs"]] + [0.0]) + max([r.get("nested_delay", 0.0) for r in scn["reqs"]] + [0.0])

            def progress():
                return (len(invocations), len(finished), sum(len(st_.sent) for st_ in wb.stubs), len(nested))
            last = [progress(), sim.now]
            while not sim.halted and not all_answered():
                sim.wait_until(lambda: False, D / 40.0)
                pr = progress()
                if pr != last[0]:
                    last[0], last[1] = pr, sim.now
                elif sim.now - last[1] >= quiet:
                    break
            stats["quiescent_for"] = round(sim.now - last[1], 3)
            if not sim.halted:
                sim.sleep(min(1.0, D / 2))

        sim.run_main(main)

        # ---------------- oracle ----------------
        sent = []
        if stats.get("not_started"):
            return base_result(sim, [], summary=dict(stats, invocations=0), extra={"inconclusive": "connections did not open"})
        for st_ in wb.stubs:
            for (step, t, raw, msg) in st_.sent:
                try:
                    sent.append((st_.index, step, t, C.dec_msg(raw)))
                except C.DecodeError as e:
                    violations.append({"clause": "the answer sent is a well-formed message", "sig": "C13/answer-undecodable",
                                       "detail": {"err": str(e), "raw": raw.hex()[:120]}})
        # budget exhausted before quiescence: the safety clauses (wrong handler, twice, malformed) are still judged,
        # the liveness clauses (handler ran, answer sent) are not
        exhausted = sim.halt_reason in ("max_steps", "horizon")
        if exhausted:
            stats["inconclusive_liveness"] = 1
        for r in scn["reqs"]:
            appid = APPS[r["app"]][2]
            key = (appid, r["code"])
            hbx = "%08x" % r["_hbh"]
            inv = [i for i in invocations if i[1] == hbx]
            ans = [s for s in sent if s[3]["hbh"] == r["_hbh"] and s[3]["e2e"] == r["_e2e"] and not C.is_request(s[3])]
            stats["answers"] += len(ans)
            if not r["registered"]:
                if inv:
                    violations.append({"clause": "dispatched to exactly the handler registered for its pair and to no other",
                                       "sig": "C13/handler-ran-for-unregistered-pair",
                                       "detail": {"request": key, "ran": [i[0] for i in inv]}})
                continue
            wrong = [i for i in inv if tuple(i[0]) != key]
            if wrong:
                violations.append({"clause": "dispatched to exactly the handler registered for its pair and to no other",
                                   "sig": "C13/wrong-handler", "detail": {"request": key, "ran": [i[0] for i in inv]}})
                continue
            if exhausted and (len(inv) == 0 or (len(inv) == 1 and len(ans) == 0)):
                continue
            if len(inv) != 1:
                violations.append({"clause": "the registered handler runs exactly once per request",
                                   "sig": "C13/handler-ran-%s" % ("never" if not inv else "twice"),
                                   "detail": {"request": key, "hbh": hbx, "outcome": r["outcome"], "invocations": len(inv),
                                              "thread_exceptions": [(t.role, "%s: %s" % (type(e).__name__, str(e)[:100]))
                                                                    for t, e in sim.thread_exceptions][:4]}})
                continue
            if len(ans) != 1:
                kind = "no-answer" if not ans else "answered-twice"
                fam = "failure" if r["outcome"] in FAIL else "success"
                violations.append({"clause": "exactly one answer is sent per request",
                                   "sig": "C13/%s/%s-outcome" % (kind, fam),
                                   "detail": {"request": key, "hbh": hbx, "outcome": r["outcome"], "answers": len(ans),
                                              "handler_finished_at": finished.get(hbx), "now": sim.now, "D": D,
                                              "thread_exceptions": [(t.role, "%s: %s" % (type(e).__name__, str(e)[:100]))
                                                                    for t, e in sim.thread_exceptions][:4]}})
                continue
            a = ans[0][3]
            if a["code"] != r["code"] or a["app"] != appid:
                violations.append({"clause": "the answer belongs to the request's command", "sig": "C13/answer-wrong-command",
                                   "detail": {"request": key, "answer": (a["app"], a["code"])}})
            if r["outcome"] in FAIL:
                rc = C.find(a, C.RESULT_CODE)
                sess = C.find(a, C.SESSION_ID)
                oh, orr = C.find(a, C.ORIGIN_HOST), C.find(a, C.ORIGIN_REALM)
                dh, dr = C.find(a, C.DEST_HOST), C.find(a, C.DEST_REALM)
                problems = []
                if rc is None or int.from_bytes(rc[3], "big") != 5012:
                    problems.append("result-code")
                if sess is None or sess[3] != r["_sess"]:
                    problems.append("session-id")
                if oh is None or oh[3] != LOCAL_HOST.encode() or orr is None or orr[3] != LOCAL_REALM.encode():
                    problems.append("origin")
                if dh is None or dh[3] != PEER_HOST.encode() or dr is None or dr[3] != PEER_REALM.encode():
                    problems.append("destination")
                if problems:
                    violations.append({"clause": "the fallback answer is DIAMETER_UNABLE_TO_COMPLY with the request's identifiers and "
                                                 "Session-Id, the local origin and the requester as destination",
                                       "sig": "C13/fallback-malformed/" + "+".join(problems),
                                       "detail": {"request": key, "outcome": r["outcome"], "answer": C.summary(a)}})
        # stray answers (not matching any request)
        known = set((r["_hbh"], r["_e2e"]) for r in scn["reqs"])
        stray = [s for s in sent if not C.is_request(s[3]) and (s[3]["hbh"], s[3]["e2e"]) not in known]
        if stray:
            violations.append({"clause": "exactly one answer is sent per request", "sig": "C13/stray-answer",
                               "detail": {"answers": [C.summary(s[3]) for s in stray[:3]]}})
        sigs = set()
        uniq = []
        for v in violations:
            if v["sig"] not in sigs:
                sigs.add(v["sig"])
                uniq.append(v)
        return base_result(sim, uniq, summary=dict(stats, invocations=len(invocations)),
                           extra={"max_inflight": stats["max_inflight"], "failures": stats["failures"],
                                  "faults": {"handler_failure_outcome": stats["failures"],
                                             "requests_in_flight_max": stats["max_inflight"],
                                             "thread_stall": sim.stalls_fired,
                                             "preemption_in_bromelia_code": sim.preempt_line + sim.preempt_opcode}})


CHECK = C13()
