# -*- coding: utf-8 -*-
"""
C14 -- A waiting sender gets its own answer, matched by Hop-by-Hop id, and
always wakes.

World B1.  k caller threads call Bromelia.send_message(request) (waiting
form); the stub connection turns each request that leaves into an answer that
arrives after a PRNG delay (possibly zero), in any permutation, optionally
duplicated, optionally never, plus unsolicited answers with unknown
Hop-by-Hop.  Stalled-thread faults are anchored inside the callers.
"""

import random

from simkit.driver import Check, base_result
from ref import codec as C
from checks.worlda import draw_clock_jumps, schedule_clock_jumps, install_func_stalls
from checks.worldb import (WorldB, WorldB2, APPS, draw_sched_b, draw_knobs_b, draw_full_stack, LOCAL_HOST,
                           LOCAL_REALM, PEER_HOST, PEER_REALM)

TAG_CODE = 99999


def _keyhex(key):
    # the registry key is the library's business (bytes today); the observer must not depend on its type
    if isinstance(key, (bytes, bytearray)):
        return bytes(key).hex()
    if isinstance(key, int):
        return "%08x" % key
    return repr(key)


class C14(Check):
    prop = "C14"
    quick_runs = 160
    thorough_runs = 2000
    run_wall = 600.0
    rule = ("one run = k in 1..6 caller threads each sending 1..3 requests through Bromelia.send_message and waiting; "
            "the stub connection makes each answer arrive after a seeded delay (0 .. 20 ms), in any order, optionally "
            "duplicated / never / preceded by unsolicited answers; seeded schedule with stalled-thread faults inside "
            "callers; distinct = distinct schedule signature; non-trivial = at least two answers in flight at once, or "
            "a stall fault fired, or an answer was handed to the application layer within 2 ms of its request leaving")
    components_real = ["Bromelia.send_message / handler_pending_answers / main / create_message_thread",
                       "Worker (queues, locks, pending-answer registry, recv_handler, send_handler)", "PendingAnswer",
                       "DiameterMessage.load for arriving answers"]
    components_stub = ["three runs in four (world B1): the connection object underneath Worker is a StubConnection instead of a "
                       "Diameter, and the harness starts recv_handler/send_handler/main directly",
                       "one run in four (world B2, full stack): nothing between the handlers / callers and the wire is a stub -- "
                       "Bromelia.run, _run, Worker.run, Diameter.context, DiameterAssociation, PeerStateMachine, TcpClient run "
                       "as shipped on the simulated OS, a scripted reference peer is the remote end",
                       "multiprocessing.Manager -> in-process simulated primitives; Worker.start runs Worker.run as a simulator thread"]
    assumptions = ["an answer that never arrives leaves its caller blocked (excluded from the wake clause)",
                   "liveness bound D is a multiple of the polling intervals drawn for the run"]

    def gen_scenario(self, rng, tier, index):
        k = rng.choice([1, 2, 3, 3, 4, 6])
        nworkers = rng.choice([1, 1, 2])
        apps_per_worker = [[0]] if nworkers == 1 else [[0], [1]]
        callers = []
        for c in range(k):
            n = rng.choice([1, 1, 2, 3])
            reqs = []
            for j in range(n):
                w = rng.randrange(nworkers)
                x = rng.random()
                if x < 0.15:
                    fate = "never"
                elif x < 0.30:
                    fate = "dup"
                else:
                    fate = "once"
                delay = rng.choice([0.0, 0.0, 0.0001, 0.0005, 0.001, 0.003, 0.01, 0.02])
                reqs.append({"worker": w, "fate": fate, "delay": delay,
                             "dup_gap": rng.choice([0.0, 0.0005, 0.005]),
                             # anchored fault: the OS deschedules the caller at the very
                             # moment its request leaves through the worker's send thread
                             "stall_on_send": rng.choice([0.0, 0.0, 0.0, 0.002, 0.01, 0.05]),
                             # anchored fault: the caller is descheduled k of its own steps
                             # after entering send_message (k spans the whole call)
                             "stall_after": rng.choice([None, rng.randrange(20, 130), rng.randrange(0, 200)]),
                             "stall_dur": rng.choice([0.002, 0.01, 0.05])})
            callers.append({"start": rng.choice([0.0, 0.0, 0.001, 0.01]), "reqs": reqs})
        unsolicited = [{"t": rng.choice([0.001, 0.005, 0.02]), "worker": rng.randrange(nworkers)}
                       for _ in range(rng.choice([0, 0, 1, 2]))]
        sched = draw_sched_b(rng)
        stalls = []
        if sched["policy"] == "stall" or rng.random() < 0.3:
            for _ in range(rng.choice([1, 2, 3])):
                stalls.append({"caller": rng.randrange(k), "at": rng.randrange(5, 400),
                               "dur": rng.choice([0.0005, 0.002, 0.01, 0.05])})
        knobs = draw_knobs_b(rng)
        # per-run barrier sizes: with a small party count the answer barrier really trips and
        # releases several dispatch threads at the same instant
        knobs["ANSWER_THRESHOLD"] = rng.choice([40, 2, 2, 3])
        knobs["SEND_THRESHOLD"] = rng.choice([50, 50, 2, 3])
        burst = rng.random() < 0.4
        if burst and k >= 2:
            # all callers start together and every answer arrives after the same delay: the
            # dispatch threads of different answers run side by side
            d = rng.choice([0.0, 0.001, 0.005])
            for c in callers:
                c["start"] = 0.0
                for r in c["reqs"]:
                    r["delay"] = d
                    if r["fate"] == "never":
                        r["fate"] = "once"
            if sched["policy"] in ("random", "sticky", "stall"):
                sched["policy"] = "line"
                sched["p_line"] = rng.choice([0.02, 0.1, 0.3])
        scn = {"callers": callers, "apps_per_worker": apps_per_worker, "unsolicited": unsolicited,
               "sched": sched, "knobs": knobs, "stalls": stalls, "horizon": 30.0,
               "id_boundary": rng.random() < 0.3}
        # later additions draw from a generator of their own (the stream above stays what it was)
        rng2 = random.Random(rng.getrandbits(48))
        scn["clock_jumps"] = draw_clock_jumps(rng2, span=0.02, p=0.15)
        # function-entry anchored stalled-thread fault inside the dispatch path: the k-th dispatch is
        # descheduled j steps (bytecodes, when the run traces bytecodes) after entering the function,
        # while the callers keep registering and leaving
        scn["func_stalls"] = []
        if rng2.random() < 0.5:
            for _ in range(rng2.choice([1, 1, 2])):
                scn["func_stalls"].append({
                    "func": rng2.choice(["Bromelia.handler_pending_answers", "Bromelia.handler_pending_answers",
                                         "Worker.is_pending_answer", "Worker.get_pending_answer",
                                         "Worker.remove_pending_answer", "PendingAnswer.notify"]),
                    "call": rng2.randrange(1, 5), "line": rng2.randrange(0, 70),
                    "dur": rng2.choice([0.0005, 0.003, 0.02])})
            if rng2.random() < 0.5:
                sched["opcode"] = True
                if not sched.get("p_line"):
                    sched["p_line"] = 0.01
        if nworkers == 2 and rng2.random() < 0.4:
            # Hop-by-Hop identifiers are unique per connection only: requests built from an explicit header (a
            # relay forwarding) carry the SAME identifier on the two connections at the same time
            by_w = {0: [], 1: []}
            for c in callers:
                for r in c["reqs"]:
                    by_w[r["worker"]].append((c, r))
            base = rng2.choice([0x70000001, 0x0000A001, 0xFFFFFF00])
            for k_ in range(min(len(by_w[0]), len(by_w[1]), rng2.choice([1, 2, 3]))):
                for wi in (0, 1):
                    c, r = by_w[wi][k_]
                    r["given_hbh"] = base + k_
                    r["delay"] = max(r["delay"], rng2.choice([0.003, 0.01, 0.02]))
                    c["start"] = 0.0
        scn["flap"] = None
        if rng2.random() < 0.2:
            # fault: the connection behind a worker is reported down (Worker.is_open cleared, as Worker.run does when
            # its connection ends) right after an answer has arrived, while the application's main loop is stalled
            # (descheduled) for up to a few seconds; the flag may come back later.  An answer that has arrived still
            # belongs to its caller.
            ci_ = rng2.randrange(len(callers))
            scn["flap"] = {"caller": ci_, "j": rng2.randrange(len(callers[ci_]["reqs"])),
                           "main_stall": rng2.choice([0.0, 0.3, 1.2, 2.5]),
                           "restore_after": rng2.choice([None, 0.5, 3.0])}
        if index % 16 == 13:
            # volume: hundreds of request/answer pairs through the same application object
            nvol = rng2.choice([80, 150, 300])
            del callers[2:]
            while len(callers) < 2:
                callers.append({"start": 0.0, "reqs": []})
            for ci, c in enumerate(callers):
                c["start"] = 0.0
                c["reqs"] = [{"worker": rng2.randrange(nworkers), "fate": rng2.choice(["once", "once", "once", "dup"]),
                              "delay": rng2.choice([0.0, 0.0, 0.0005, 0.002]), "dup_gap": 0.0005,
                              "stall_on_send": 0.0, "stall_after": None, "stall_dur": 0.002} for _ in range(nvol)]
            scn["stalls"] = []
            scn["func_stalls"] = []
            scn["unsolicited"] = []
            scn["flap"] = None
            scn["settle"] = 60.0
            scn["horizon"] = 120.0
            scn["max_steps"] = 16_000_000
            scn["knobs"]["BROMELIA_TICKER"] = max(scn["knobs"]["BROMELIA_TICKER"], 0.0005)
        elif index % 10 == 4:
            # a slow peer: one answer takes from half a minute to many minutes; meanwhile other callers come
            # and go, and the wall clock may be stepped.  Coarse ticks keep the simulated minutes cheap.
            slow = rng2.choice([31.0, 45.0, 90.0, 400.0])
            callers[0]["start"] = 0.0
            callers[0]["reqs"] = callers[0]["reqs"][:1]
            callers[0]["reqs"][0].update({"fate": "once", "delay": slow, "stall_on_send": 0.0, "stall_after": None})
            for c in callers[1:]:
                c["start"] = rng2.choice([0.5, 10.0, 29.0, 31.0, slow - 0.5, slow * 0.5])
                c["reqs"] = c["reqs"][:2]
                for r in c["reqs"]:
                    r.update({"delay": rng2.choice([0.0, 0.01, 0.3, 2.0]), "stall_on_send": 0.0, "stall_after": None})
            if len(callers) == 1:
                callers.append({"start": rng2.choice([29.0, 31.0, slow - 0.5]), "reqs": [
                    {"worker": callers[0]["reqs"][0]["worker"], "fate": "once", "delay": 0.01, "dup_gap": 0.0,
                     "stall_on_send": 0.0, "stall_after": None, "stall_dur": 0.002}]})
            scn["stalls"] = []
            scn["func_stalls"] = []
            scn["unsolicited"] = []
            scn["flap"] = None
            scn["knobs"].update({"BROMELIA_TICKER": 0.02, "PROCESS_TIMER": 0.2, "SEND_THRESHOLD_TICKER": 0.05})
            scn["clock_jumps"] = [] if rng2.random() < 0.5 else [
                {"t": rng2.choice([0.5, 5.0, 20.0]), "delta": rng2.choice([-3600.0, 40.0, 3600.0])}]
            scn["settle"] = slow + 60.0
            scn["horizon"] = slow + 200.0
            scn["max_steps"] = 12_000_000
        elif index % 4 == 3:
            # full stack (world B2): Bromelia.run() -> Worker.run() -> Diameter.context() -> real nodes on the
            # simulated network, the scripted peer answering on the wire
            draw_full_stack(rng2, scn)
            scn["flap"] = None
        return scn

    def shrink(self, scn):
        import copy
        cs = scn["callers"]
        if len(cs) > 1:
            for i in range(len(cs)):
                c = copy.deepcopy(scn)
                del c["callers"][i]
                c["stalls"] = [s for s in c["stalls"] if s["caller"] < len(c["callers"])]
                yield c
        for i, cl in enumerate(cs):
            if len(cl["reqs"]) > 1:
                for j in range(len(cl["reqs"])):
                    c = copy.deepcopy(scn)
                    del c["callers"][i]["reqs"][j]
                    yield c
        if scn["unsolicited"]:
            c = copy.deepcopy(scn)
            c["unsolicited"] = []
            yield c
        for i in range(len(scn["stalls"])):
            c = copy.deepcopy(scn)
            del c["stalls"][i]
            yield c
        for i, cl in enumerate(cs):
            for j, r in enumerate(cl["reqs"]):
                if r["fate"] != "once":
                    c = copy.deepcopy(scn)
                    c["callers"][i]["reqs"][j]["fate"] = "once"
                    yield c
                if r.get("stall_on_send"):
                    c = copy.deepcopy(scn)
                    c["callers"][i]["reqs"][j]["stall_on_send"] = 0.0
                    yield c
                if r.get("stall_after") is not None:
                    c = copy.deepcopy(scn)
                    c["callers"][i]["reqs"][j]["stall_after"] = None
                    yield c

    def nontrivial(self, res):
        return res.get("max_inflight", 0) >= 2 or res.get("faults", {}).get("thread_stall", 0) > 0 \
            or res.get("fast_answers", 0) > 0

    def sample(self, scn, res):
        return {"callers": scn["callers"], "stalls": scn["stalls"], "sched": scn["sched"],
                "knobs": scn["knobs"], "outcome": res.get("summary")}

    def run(self, scn, tape_in=None):
        wb = WorldB2(scn, tape_in) if scn.get("full_stack") else WorldB(scn, tape_in)
        sim = wb.sim
        for s in scn["stalls"]:
            sim.stall_plan.setdefault("B:caller%d" % s["caller"], []).append((s["at"], s["dur"]))
        violations = []
        knobs = wb.world.knobs
        D = 1.0 + 400 * knobs["BROMELIA_TICKER"] + 100 * knobs["PROCESS_TIMER"] + 10 * knobs["SEND_THRESHOLD_TICKER"] + \
            sum(fs["dur"] for fs in scn.get("func_stalls") or ()) + 2 * wb.latency() + \
            ((scn.get("flap") or {}).get("main_stall") or 0.0)
        results = {}        # (caller, j) -> record
        req_info = {}       # hbh hex -> info
        stats = {"answers_arrived": 0, "dups": 0, "never": 0, "unsolicited": 0, "max_inflight": 0,
                 "fast_answers": 0}
        started = [False]

        def main(sim):
            import bromelia.bromelia as bro
            from bromelia.base import DiameterRequest, DiameterHeader
            from bromelia.avps import SessionIdAVP, OriginHostAVP, OriginRealmAVP, DestinationRealmAVP
            app = wb.build(scn["apps_per_worker"])
            inflight = set()

            def on_send(stub, msg, raw):
                if not msg.header.is_request():
                    return
                hb = msg.header.hop_by_hop.hex()
                info = req_info.get((stub.index, hb))
                if info is None:
                    return
                info["left_at"] = sim.now
                inflight.add((stub.index, hb))
                if info["spec"].get("stall_on_send"):
                    for t in sim.threads:
                        if t.role == "B:caller%d" % info["caller"] and t.state != "done":
                            sim.stalled[t.tid] = max(sim.stalled.get(t.tid, 0.0), sim.now + info["spec"]["stall_on_send"])
                            sim.stalls_fired += 1
                            sim.log("stall", t.role, info["spec"]["stall_on_send"])
                stats["max_inflight"] = max(stats["max_inflight"], len(inflight))
                r = info["spec"]
                if r["fate"] == "never":
                    stats["never"] += 1
                    return
                m = C.dec_msg(raw)
                sess = C.find(m, C.SESSION_ID)
                ans = C.app_answer(m["app"], m["code"], m["hbh"], m["e2e"], sess[3] if sess else b"s;0;0",
                                   PEER_HOST, PEER_REALM,
                                   extra=[(TAG_CODE, 0, None, info["tag"])])
                enc = C.enc_msg(ans)

                def arrive(enc=enc, hb=hb):
                    stats["answers_arrived"] += 1
                    info.setdefault("arrived_at", sim.now)
                    stub.arrive(enc)
                    fl = scn.get("flap")
                    if fl and (fl["caller"], fl["j"]) == (info["caller"], info["j"]) and not flap_state.get("fired"):
                        flap_state["fired"] = True
                        flap_state["worker"] = stub.index
                        if fl["main_stall"]:
                            for t in sim.threads:
                                if "bromelia_main" in t.role and t.state != "done":
                                    sim.stalled[t.tid] = max(sim.stalled.get(t.tid, 0.0), sim.now + fl["main_stall"])
                                    sim.stalls_fired += 1
                                    sim.log("stall", t.role, fl["main_stall"])
                        ft = flap_state.get("thread")
                        if ft is not None and ft.state == "blocked":
                            sim.wake(ft)
                sim.after(r["delay"], arrive)
                if r["fate"] == "dup":
                    stats["dups"] += 1
                    sim.after(r["delay"] + r["dup_gap"], arrive)
            for st in wb.stubs:
                st.on_send = on_send
            flap_state = {}

            def flapper():
                # harness thread: performs the flag changes (simulator primitives are not allowed in event context)
                while not flap_state.get("fired"):
                    sim.block(("flap",))
                w_ = wb.workers[flap_state["worker"]]
                flap_state["down_from"] = sim.now
                w_.is_open.clear()
                stats["flaps"] = stats.get("flaps", 0) + 1
                sim.probe("worker_flag_dropped")
                ra = scn["flap"].get("restore_after")
                if ra is not None:
                    sim.sleep(ra)
                    w_.is_open.set()
                    flap_state["down_until"] = sim.now
                return True
            if scn.get("flap") and not wb.full_stack:
                flap_state["thread"] = sim.spawn(flapper, role="B:flapper")
            wb.start()
            if wb.full_stack and not all(w.is_open.is_set() for w in wb.workers):
                sim.probe("b2_not_open")
                return None         # the connections did not open: nothing to judge (inconclusive)
            # registrations are observed at the method the library itself calls; the registry object stays
            # the library's own (an earlier version replaced it by a harness dict per worker, which would have
            # hidden any change in how the library shares or keys its registry)
            _orig_insert = bro.Worker.insert_pending_answer

            def _observed_insert(self_, p_answer):
                r_ = _orig_insert(self_, p_answer)
                try:
                    ci_ = wb.workers.index(self_)
                except ValueError:
                    ci_ = -1
                wb.hist("registered", hbh=_keyhex(p_answer.msg.header.hop_by_hop), conn=ci_)
                return r_
            bro.Worker.insert_pending_answer = _observed_insert
            started[0] = True
            if wb.full_stack:
                sim.probe("b2_open")
            schedule_clock_jumps(sim, scn.get("clock_jumps"))
            install_func_stalls(sim, scn.get("func_stalls"))

            def caller(ci, spec):
                if spec["start"]:
                    sim.sleep(spec["start"])
                for j, r in enumerate(spec["reqs"]):
                    app_idx = scn["apps_per_worker"][r["worker"]][0]
                    appid = APPS[app_idx][2]
                    avps_ = [SessionIdAVP(("%s;1;%d%d" % (LOCAL_HOST, ci, j)).encode()),
                             OriginHostAVP(LOCAL_HOST), OriginRealmAVP(LOCAL_REALM),
                             DestinationRealmAVP(PEER_REALM)]
                    if r.get("given_hbh") is not None:
                        # a request built from an explicit header, as a relay does when it forwards: Hop-by-Hop
                        # identifiers are unique per connection only, so the same value may be outstanding on
                        # another connection at the same time
                        hdr = DiameterHeader(application_id=appid.to_bytes(4, "big"), command_code=(316).to_bytes(3, "big"),
                                             hop_by_hop=r["given_hbh"].to_bytes(4, "big"),
                                             end_to_end=(0x66000000 + 16 * ci + j).to_bytes(4, "big"))
                        req = DiameterRequest(header=hdr, avps=avps_)
                        stats["given_hbh"] = stats.get("given_hbh", 0) + 1
                    else:
                        req = DiameterRequest(application_id=appid, command_code=316, avps=avps_)
                    hb = req.header.hop_by_hop.hex()
                    tag = ("tag-%d-%d" % (ci, j)).encode()
                    info = {"caller": ci, "j": j, "spec": r, "tag": tag, "hbh": hb, "conn": r["worker"]}
                    req_info[(r["worker"], hb)] = info
                    rec = {"caller": ci, "j": j, "hbh": hb, "conn": r["worker"], "t0": sim.now, "returned": False,
                           "ret": None, "exc": None, "fate": r["fate"]}
                    results[(ci, j)] = rec
                    wb.hist("call", hbh=hb, caller=ci)
                    if r.get("stall_after") is not None:
                        me = sim.cur
                        me.stall_plan = sorted((me.stall_plan or []) + [(me.steps + r["stall_after"], r["stall_dur"])])
                    try:
                        ans = app.send_message(req)
                        rec["ret"] = ans
                    except BaseException as e:      # noqa
                        if type(e).__name__ in ("SimStop", "SimHang"):
                            raise
                        rec["exc"] = "%s: %s" % (type(e).__name__, e)
                    rec["returned"] = True
                    rec["t1"] = sim.now
                    inflight.discard((r["worker"], hb))
                    wb.hist("return", hbh=hb, caller=ci)
                return True

            ths = [sim.spawn(caller, ci, spec, role="B:caller%d" % ci)
                   for ci, spec in enumerate(scn["callers"])]
            for u in scn["unsolicited"]:
                def unsol(u=u):
                    stats["unsolicited"] += 1
                    app_idx = scn["apps_per_worker"][u["worker"]][0]
                    a = C.app_answer(APPS[app_idx][2], 316, 0xDEAD0000 + stats["unsolicited"], 7,
                                     "x;0;0", PEER_HOST, PEER_REALM)
                    wb.stubs[u["worker"]].arrive(C.enc_msg(a))
                sim.after(u["t"], unsol)

            # run until every caller that can finish has finished, then D more
            def settled():
                for t, spec in zip(ths, scn["callers"]):
                    if t.state == "done":
                        continue
                    return False
                return True

            def all_expected_back():
                # every caller has either finished or is waiting on a request whose answer never comes
                for ci, (t, spec) in enumerate(zip(ths, scn["callers"])):
                    if t.state == "done":
                        continue
                    pend = [r for k, r in results.items() if k[0] == ci and not r["returned"]]
                    if len(pend) == 1 and pend[0]["fate"] == "never" and "left_at" in req_info[(pend[0]["conn"], pend[0]["hbh"])]:
                        continue
                    return False
                return True
            sim.wait_until(all_expected_back, min(scn.get("settle", 6.0), scn["horizon"] - D - 1.0), poll=0.02)
            # quiet period: last arrival + D
            last = max([i.get("arrived_at", 0.0) for i in req_info.values()] + [0.0])
            # all requests of still-running callers must have been issued before judging
            sim.wait_until(lambda: False, max(0.0, last + D - sim.now), poll=D / 10.0)
            sim.wait_until(settled, D, poll=D / 20.0)

            # ---------------- oracle -----------------
            returned_ids = {}
            for key, rec in sorted(results.items()):
                info = req_info[(rec["conn"], rec["hbh"])]
                if rec["returned"]:
                    if rec["exc"]:
                        violations.append({"clause": "send_message raised", "sig": "C14/raised/" + rec["exc"].split(":")[0],
                                           "detail": {"caller": key, "exc": rec["exc"]}})
                        continue
                    ans = rec["ret"]
                    if ans is None and "left_at" not in info and flap_state.get("down_from") is not None and \
                            rec["conn"] == flap_state.get("worker") and rec.get("t1", sim.now) >= flap_state["down_from"] and \
                            rec["t0"] <= flap_state.get("down_until", float("inf")):
                        # submitted while the worker was flagged down: send_message declines (returns None) by
                        # design and the request never left; nothing was promised for it
                        stats["declined_while_down"] = stats.get("declined_while_down", 0) + 1
                        continue
                    if ans is None or not hasattr(ans, "header"):
                        violations.append({"clause": "caller is given the received answer", "sig": "C14/returned-non-answer",
                                           "detail": {"caller": key, "ret": repr(ans)[:100]}})
                        continue
                    if ans.header.is_request():
                        violations.append({"clause": "caller is given the received answer", "sig": "C14/returned-request-back",
                                           "detail": {"caller": key, "hbh": rec["hbh"]}})
                        continue
                    if ans.header.hop_by_hop.hex() != rec["hbh"]:
                        violations.append({"clause": "answer Hop-by-Hop equals the request's", "sig": "C14/wrong-hbh",
                                           "detail": {"caller": key, "want": rec["hbh"], "got": ans.header.hop_by_hop.hex()}})
                        continue
                    tags = [a.data for a in ans.avps if a.get_code() == TAG_CODE]
                    if tags != [info["tag"]]:
                        violations.append({"clause": "no caller receives another caller's answer", "sig": "C14/wrong-answer",
                                           "detail": {"caller": key, "want": info["tag"].decode(), "got": [t.decode() for t in tags]}})
                        continue
                    if id(ans) in returned_ids:
                        violations.append({"clause": "no answer is delivered twice", "sig": "C14/answer-delivered-twice",
                                           "detail": {"callers": [returned_ids[id(ans)], key]}})
                    returned_ids[id(ans)] = key
                    if info["spec"]["fate"] == "never":
                        violations.append({"clause": "caller is given a received answer", "sig": "C14/answer-from-nowhere",
                                           "detail": {"caller": key}})
                else:
                    # still parked: legitimate only if its answer never reached the app layer
                    taken = [e for e in wb.events if e["kind"] == "taken" and e["hbh"] == rec["hbh"] and not e["req"]
                             and e.get("conn") == rec["conn"]]
                    if taken and sim.now - taken[0]["t"] >= D:
                        reg = [e for e in wb.events if e["kind"] == "registered" and e["hbh"] == rec["hbh"]
                               and e.get("conn") in (rec["conn"], -1)]
                        early = (not reg) or reg[0]["step"] > taken[0]["step"]
                        th = [t for t in sim.threads if t.role == "B:caller%d" % key[0]]
                        violations.append({
                            "clause": "a caller whose answer has arrived is always woken",
                            "sig": "C14/lost-wakeup/" + ("answer-before-waiter-registered" if early else "waiter-registered"),
                            "detail": {"caller": key, "hbh": rec["hbh"],
                                       "answer_taken_at": taken[0]["t"],
                                       "waiter_registered_at": reg[0]["t"] if reg else None,
                                       "now": sim.now, "D": D,
                                       "parked_on": repr(th[0].wait_on) if th else None,
                                       "thread_state": th[0].state if th else None}})
            for hb, info in req_info.items():
                if "left_at" in info and "arrived_at" in info and info["arrived_at"] - info["left_at"] <= 0.002:
                    stats["fast_answers"] += 1
            # NOTE: a dispatch thread that dies with KeyError because a *duplicate* answer lost the
            # check-then-get race on the registry harms no caller; the statement does not promise
            # anything about it, so it is not judged (an earlier version of this oracle did: false alarm).
            return None

        sim.run_main(main)
        return base_result(sim, violations, summary=dict(stats, callers=len(scn["callers"]),
                                                         returned=sum(1 for r in results.values() if r["returned"])),
                           extra={"max_inflight": stats["max_inflight"], "fast_answers": stats["fast_answers"],
                                  "faults": {"thread_stall": sim.stalls_fired, "answer_duplicated": stats["dups"],
                                             "worker_down_flag_flap": stats.get("flaps", 0),
                                             "answer_never": stats["never"], "unsolicited_answer": stats["unsolicited"],
                                             "answer_zero_delay": sum(1 for i in req_info.values()
                                                                      if i["spec"]["delay"] == 0.0 and "arrived_at" in i)}})


CHECK = C14()
