# -*- coding: utf-8 -*-
import importlib
import os
import sys

HERE = os.path.dirname(os.path.dirname(os.path.abspath(__file__)))
if HERE not in sys.path:
    sys.path.insert(0, HERE)


def main():
    if len(sys.argv) < 2:
        print("usage: check <property id | selftest> [--tier quick|thorough] [--replay file]")
        return 2
    what = sys.argv[1]
    if what == "selftest":
        from checks import selftest
        return selftest.main(sys.argv[2:])
    if what == "replay":
        import json
        with open(sys.argv[2]) as f:
            prop = json.load(f)["property"]
        mod = importlib.import_module("checks.%s" % prop.lower())
        from simkit.driver import main_check
        return main_check(mod.CHECK, ["--replay", sys.argv[2]])
    mod = importlib.import_module("checks.%s" % what.lower())
    from simkit.driver import main_check
    return main_check(mod.CHECK, sys.argv[2:])


if __name__ == "__main__":
    sys.exit(main())
