# -*- coding: utf-8 -*-
"""
C08 -- Every way a connection ends leaves the node closed, released and
restartable.

World A.  A connection is brought to a seeded point of its life, then one
termination cause is applied (local close, DPR from the peer, orderly EOF,
reset, refused connection, peer vanishing during setup).  Within D the node
must report Closed, every socket it created must be closed and unregistered,
every library thread must have exited, every blocked get_message() must have
returned, no internal lock may be held; then start() on the same object must
reach Open again.
"""

import copy
import random

from simkit.driver import Check, base_result
from ref import codec as C
from checks.worlda import (WorldA, draw_clock_jumps, schedule_clock_jumps, bystander_for, bystander_cost, draw_knobs, draw_sched, draw_func_stalls, install_func_stalls, NODE_HOST, NODE_REALM,
                           PEER_HOST, PEER_REALM)

APP_ID = 16777251

POINTS_CLIENT = ["connecting", "cer_sent", "open_idle", "open_traffic", "open_parked", "open_backlog", "closing"]
POINTS_SERVER = ["accepted_no_cer", "open_idle", "open_traffic", "open_parked", "open_backlog", "closing"]
CAUSES = {
    "connecting": ["refused", "local_close", "never", "unreachable"],
    "cer_sent": ["peer_eof", "peer_rst", "local_close", "non_cea", "local_close_cross_cea", "peer_cer_then_eof",
                 "peer_cer_then_local_close"],
    "accepted_no_cer": ["peer_eof", "peer_rst"],
    "open_idle": ["local_close", "peer_dpr", "peer_eof", "peer_rst", "peer_dpr_then_rst"],
    "open_traffic": ["local_close", "peer_dpr", "peer_eof", "peer_rst", "peer_dpr_then_rst"],
    "open_parked": ["local_close", "peer_dpr", "peer_eof", "peer_rst"],
    "open_backlog": ["local_close", "local_close", "peer_dpr", "peer_eof", "peer_rst"],
    "closing": ["peer_eof", "peer_rst", "peer_dpa_late", "peer_dpr_cross"],
}


class C08(Check):
    prop = "C08"
    quick_runs = 192
    thorough_runs = 3000
    run_wall = 600.0
    rule = ("one run = one connection brought to a seeded point of its life (connecting, CER sent, accepted without CER, "
            "Open idle / with queued traffic / with a consumer parked in get_message, Closing), one termination cause "
            "(local close, peer DPR, EOF, reset, refused connect, connect that never completes, non-CEA, DPR crossing a "
            "local stop) applied after a seeded delay under a seeded schedule, followed by a restart of the same object; "
            "distinct = distinct schedule signature; non-trivial = every run (each injects exactly one termination fault)")
    components_real = ["Diameter.start/close", "DiameterAssociation.start/close/get_message/recv_message_from_queue",
                       "PeerStateMachine and all State classes", "TcpClient/TcpServer/TcpConnection close/_run/read/write"]
    components_stub = ["OS sockets/selectors/threads/clock (simkit, Linux connect semantics)", "remote peer (ref.peer.ScriptedPeer)"]
    assumptions = ["D = SLEEP_TIMER + select timeout + receive-worker wait timeout + 50 ticks + connect timeout, after the cause",
                   "a connect that never completes is failed by the simulated kernel after NetConfig.connect_timeout",
                   "a server whose start() is still blocked in accept is not a connection (no cause is applied there)"]

    def gen_scenario(self, rng, tier, index):
        mode = rng.choice(["CLIENT", "SERVER"])
        point = rng.choice(POINTS_CLIENT if mode == "CLIENT" else POINTS_SERVER)
        cause = rng.choice(CAUSES[point])
        knobs = draw_knobs(rng)
        knobs["SLEEP_TIMER"] = rng.choice([0.1, 0.3, 1.0])
        if point == "open_backlog":
            # outbound messages queued faster than one batch per tick can carry them away
            knobs["SEND_BUFFER_MAXIMUM_SIZE"] = rng.choice([600, 1200, 2400])
            knobs["STATE_MACHINE_TICKER"] = rng.choice([0.005, 0.01, 0.02])
        sched = draw_sched(rng)
        # a connect that never completes is spun on by test_connection(): bound the simulated kernel's
        # connect timeout by what the spin costs in steps at this run's CPU quantum
        ctimeout = max(0.02, min(0.4, 300000 * sched["quantum"]))
        return self._later_additions(rng, {"mode": mode, "point": point, "cause": cause, "bystander": bystander_for(index),
                "cause_delay": rng.choice([0.0, 0.0, 0.0003, 0.002, 0.011, 0.05, 0.3]),
                # anchored placement (peer-side causes): fire the cause when a library thread
                # has executed exactly k more steps after the point was reached; in the
                # thorough tier k sweeps systematically with the run index
                "anchor": None if rng.random() < 0.5 else {
                    "thread": rng.choice(["psm_thread", "transport_layer_thread", "recv_message_monitor"]),
                    "k": (index // 2) % 400 if tier == "thorough" else rng.randrange(0, 400)},
                "traffic_in": rng.choice([1, 3, 6]), "traffic_out": rng.choice([0, 2, 5]),
                "rst_gap": rng.choice([0.0, 0.0005, 0.003, 0.02, 0.08]),
                "oversize": rng.random() < 0.4,     # one queued message is larger than the send-buffer limit
                "write_stall": rng.choice([0.0, 0.0, 0.05, 0.3]),
                # restart the same object the moment it reports Closed (as Diameter.context() does),
                # instead of waiting until every resource has been seen released
                "eager_restart": rng.random() < 0.5,
                # a consumer that ENTERS get_message() while the connection is going down, descheduled
                # for a while within its first steps (the window between its checks and its wait)
                "late_consumer": None if rng.random() < 0.6 else {
                    "after": rng.choice([0.0, 0.0, 0.0005, 0.005, 0.05]), "at": rng.randrange(0, 24),
                    "dur": rng.choice([0.05, 0.5, 1.5])},
                "func_stalls": draw_func_stalls(rng),
                "sched": sched, "knobs": knobs,
                "max_steps": 4_000_000 + int(min(12_000_000, 400.0 / knobs["STATE_MACHINE_TICKER"])),
                "net": {"max_latency": rng.choice([0.0005, 0.003]), "connect_timeout": ctimeout,
                        "p_partial_write": rng.choice([0.0, 0.0, 0.5]),
                        "p_one_byte_write": rng.choice([0.0, 0.0, 0.5]),
                        "personality": rng.choice(["linux", "linux", "linux", "windows"]) if point == "connecting" else "linux"},
                "restart": True, "watchdog": 30, "horizon": 90.0})

    @staticmethod
    def _later_additions(rng, scn):
        # later additions draw from a generator of their own (the stream above stays what it was)
        rng2 = random.Random(rng.getrandbits(48))
        # clock fault: the wall clock is stepped while the connection is going down
        scn["clock_jumps"] = draw_clock_jumps(rng2, span=rng2.choice([0.005, 0.05, 0.3]), p=0.25)
        # the peer keeps ITS side of the connection up after the DPR/DPA exchange and leaves the closing
        # to the node (which lingers for SLEEP_TIMER and then closes by itself)
        scn["peer_lingers"] = rng2.random() < 0.4
        # a long life: several more connections of the same object after the restart (coarse ticks keep it cheap)
        scn["cycles"] = 0
        if rng2.random() < 0.12:
            scn["cycles"] = rng2.choice([3, 5, 8])
            scn["knobs"]["STATE_MACHINE_TICKER"] = max(scn["knobs"]["STATE_MACHINE_TICKER"], 0.005)
            scn["knobs"]["SLEEP_TIMER"] = min(scn["knobs"].get("SLEEP_TIMER", 0.3), 0.3)
            scn["horizon"] = 400.0
            scn["max_steps"] = scn["max_steps"] + 6_000_000
        if scn["peer_lingers"] and scn["cause"] in ("local_close", "peer_dpr") and rng2.random() < 0.6:
            # ... and the clock is stepped while the node lingers
            scn["clock_jumps"] = [{"t": 0.002 + rng2.random() * 0.8 * scn["knobs"].get("SLEEP_TIMER", 0.3),
                                   "delta": rng2.choice([-3600.0, -30.0, 45.0, 3600.0])}]
        # a chatty application: one of its threads keeps submitting messages right through the end of the
        # connection (while the DPR is answered, during the linger, after the reset ...), whatever the library
        # answers to each call
        rng3 = random.Random(rng2.getrandbits(48))
        scn["partial_before_death"] = None
        if rng3.random() < 0.35:
            scn["partial_before_death"] = {"kind": rng3.choice(["app", "dwr"]), "frac": rng3.choice([0.02, 0.1, 0.3, 0.6, 0.95])}
        scn["chatty"] = None
        if rng3.random() < 0.3:
            scn["chatty"] = {"gap": rng3.choice([0.0005, 0.005, 0.05, 0.3]), "n": rng3.choice([10, 40])}
        return scn

    def shrink(self, scn):
        if scn.get("chatty"):
            c = copy.deepcopy(scn)
            c["chatty"] = None
            yield c
        if scn.get("eager_restart"):
            c = copy.deepcopy(scn)
            c["eager_restart"] = False
            yield c
        for k, v in (("cause_delay", 0.0), ("traffic_in", 1), ("traffic_out", 0), ("rst_gap", 0.0), ("write_stall", 0.0)):
            if scn.get(k) != v:
                c = copy.deepcopy(scn)
                c[k] = v
                yield c
        if scn["point"] in ("open_traffic", "open_parked", "open_backlog"):
            c = copy.deepcopy(scn)
            c["point"] = "open_idle"
            yield c
        if scn.get("late_consumer"):
            c = copy.deepcopy(scn)
            c["late_consumer"] = None
            yield c
        for i in range(len(scn.get("func_stalls", []))):
            c = copy.deepcopy(scn)
            del c["func_stalls"][i]
            yield c
        if scn["net"].get("personality") != "linux":
            c = copy.deepcopy(scn)
            c["net"]["personality"] = "linux"
            yield c

    def sample(self, scn, res):
        return {k: scn[k] for k in ("mode", "point", "cause", "cause_delay", "sched", "knobs")} | {"outcome": res.get("summary")}

    def run(self, scn, tape_in=None):
        scn = dict(scn)
        point, cause, mode = scn["point"], scn["cause"], scn["mode"]
        peerb = {}
        if point == "cer_sent":
            peerb["answer_cer"] = "none"
        if point == "closing" or cause == "peer_dpr_cross":
            peerb["answer_dpr"] = False
            peerb["close_on_dpa_rcv"] = True
        if cause == "local_close_cross_cea":
            peerb["answer_dpr"] = True
        if scn.get("peer_lingers") and cause in ("local_close", "peer_dpr", "local_close_cross_cea") and point != "closing":
            peerb["close_after_dpa"] = False
            peerb["close_on_dpa_rcv"] = False
        scn["peer"] = peerb
        if point == "accepted_no_cer":
            scn["auto_peer_cer"] = False
        net = dict(scn.get("net", {}))
        if point == "connecting":
            net["connect_outcome"] = {"refused": "refuse", "never": "never", "unreachable": "unreachable"}.get(cause, "ack")
            if cause == "local_close":
                net["connect_delay"] = (0.05, 0.2)
                peerb["answer_cer"] = "none"
        scn["net"] = net
        w = WorldA(scn, tape_in)
        sim = w.sim
        knobs = w.world.knobs
        tick = knobs["STATE_MACHINE_TICKER"]
        D = knobs["SLEEP_TIMER"] + 2 * knobs["TRACKING_SOCKET_EVENTS_TIMEOUT"] + 1.0 + 60 * tick + \
            net.get("connect_timeout", 0.4) + 0.5 + 200000 * sim.quantum + scn.get("write_stall", 0.0) + scn.get("rst_gap", 0.0) + \
            bystander_cost(scn, sim.quantum) + \
            ((scn.get("late_consumer") or {}).get("dur", 0.0)) + sum(fs["dur"] for fs in scn.get("func_stalls") or ())
        # (a stalled-thread fault may hold a lock that others need -- e.g. the late consumer descheduled inside
        # Event.set() keeps the event's internal lock: bounds count from the end of the injected stalls)
        violations = []
        st = {"reached_point": False, "cause_applied_at": None, "restart_open": None}
        sig_ctx = "%s/%s/%s" % (mode.lower(), point, cause)

        def viol(clause, short, detail):
            violations.append({"clause": clause, "sig": "C08/%s/%s" % (short, sig_ctx), "detail": detail})

        def main(sim):
            from bromelia.base import DiameterRequest
            from bromelia.avps import SessionIdAVP, OriginHostAVP, OriginRealmAVP, DestinationRealmAVP
            w.maybe_bystander()
            w.start_node()
            consumer = None
            closer = None
            # ---- bring the connection to the point -------------------------
            if point == "connecting":
                ok = sim.wait_until(lambda: w.node._association is not None and
                                    w.node._association.transport is not None and
                                    w.node._association.transport.sock is not None, 5.0, poll=0.0005)
            elif point == "cer_sent":
                ok = sim.wait_until(lambda: any(m["code"] == C.CE for m in w.peer.rx), 10.0, poll=0.001)
            elif point == "accepted_no_cer":
                ok = sim.wait_until(lambda: w.peer.sock is not None and w.peer.sock.state == "connected" and
                                    w.node._association is not None and w.node._association.transport is not None and
                                    getattr(w.node._association.transport, "is_connected", False), 10.0, poll=0.001)
            else:
                ok = w.wait_state(("I-Open", "R-Open"), 20.0)
            if not ok:
                return
            if point in ("open_traffic", "open_parked", "closing", "open_idle", "open_backlog"):
                if point == "open_parked" or (point != "open_idle" and sim.choose("consumer", 2)):
                    consumer = w.start_consumer()
            if point == "open_traffic":
                for i in range(scn["traffic_in"]):
                    w.peer.send(C.app_request(APP_ID, 316, 0x5000 + i, 0x6000 + i, "p;1;%d" % i,
                                              PEER_HOST, PEER_REALM, NODE_REALM))

                def submit():
                    for i in range(scn["traffic_out"]):
                        w.node.send_message(DiameterRequest(application_id=APP_ID, command_code=316, avps=[
                            SessionIdAVP(("n;1;%d" % i).encode()), OriginHostAVP(NODE_HOST),
                            OriginRealmAVP(NODE_REALM), DestinationRealmAVP(PEER_REALM)]))
                if scn["traffic_out"]:
                    w.call("submitter", submit)
            if point == "open_backlog":
                from bromelia.base import DiameterAVP

                def flood():
                    w.node.send_messages([DiameterRequest(application_id=APP_ID, command_code=316, avps=[
                        SessionIdAVP(("n;2;%d" % i).encode()), OriginHostAVP(NODE_HOST), OriginRealmAVP(NODE_REALM),
                        DestinationRealmAVP(PEER_REALM),
                        DiameterAVP(code=99998, data=bytes(4000 if (i == 5 and scn.get("oversize")) else 300))]) for i in range(12)])
                fl = w.call("flooder", flood)
                sim.wait_until(lambda: fl["t1"] is not None, 2.0, poll=0.0002)
            if point == "open_parked":
                # let the consumer park
                sim.wait_until(lambda: consumer["thread"].state == "blocked", 2.0, poll=0.001)
                sim.sleep(0.01)
            if point == "closing":
                closer = w.call("close", w.node.close)
                if not w.wait_state(("Closing",), 10.0):
                    # could not reach the point (e.g. closed straight away): judge what happened anyway
                    pass
            st["reached_point"] = True
            st["state_at_point"] = w.state()
            if scn.get("chatty") and point in ("open_traffic", "open_parked", "closing", "open_idle", "open_backlog"):
                def chatter():
                    for i in range(scn["chatty"]["n"]):
                        try:
                            w.node.send_message(DiameterRequest(application_id=APP_ID, command_code=316, avps=[
                                SessionIdAVP(("n;7;%d" % i).encode()), OriginHostAVP(NODE_HOST),
                                OriginRealmAVP(NODE_REALM), DestinationRealmAVP(PEER_REALM)]))
                        except BaseException as e:      # noqa  (library errors derive from BaseException)
                            if type(e).__name__ in ("SimStop", "SimHang"):
                                raise
                        sim.sleep(scn["chatty"]["gap"])
                    return "done"
                w.call("chatter", chatter)
                sim.probe("chatty_app")
            anchored = None
            if scn.get("anchor") and cause in ("peer_dpr", "peer_eof", "peer_rst", "non_cea"):
                fired = []

                def fire():
                    fired.append(sim.now)
                    if cause == "peer_dpr":
                        w.peer.send(C.dpr(PEER_HOST, PEER_REALM, hbh=0x77, e2e=0x88))
                    elif cause == "peer_eof":
                        w.peer.close()
                    elif cause == "peer_rst":
                        w.peer.close(reset=True)
                    else:
                        w.peer.send(C.dwa(PEER_HOST, PEER_REALM, hbh=1, e2e=1))
                if sim.add_step_trigger(scn["anchor"]["thread"], scn["anchor"]["k"], fire):
                    anchored = fired
                    sim.wait_until(lambda: bool(fired), 5.0, poll=0.0005)
                    if not fired:
                        fire()
                    sim.probe("anchored_cause")
            if scn.get("anchor") and cause in ("local_close", "local_close_cross_cea") and anchored is None:
                # anchored local close: the application's close() (and, for the crossing cause, the peer's
                # CEA) lands when a library thread is exactly k steps further, and that thread is
                # descheduled for a moment so that the close really falls inside the window
                gate = {"thread": None, "open": False}

                def closer_body():
                    gate["thread"] = sim.cur
                    while not gate["open"]:
                        sim.block(("gate",), 5.0)
                        if sim.halted:
                            return
                    return w.node.close()
                closer = w.call("close", closer_body)
                sim.sleep(0.0002)
                cers = [m for m in w.peer.rx if m["code"] == C.CE and C.is_request(m)]

                def fire_local():
                    gate["open"] = True
                    if cause == "local_close_cross_cea" and cers:
                        w.peer.send(C.cea(PEER_HOST, PEER_REALM, hbh=cers[-1]["hbh"], e2e=cers[-1]["e2e"]))
                    for t in sim.threads:
                        if scn["anchor"]["thread"] in t.role and t.state not in ("done", "new") and t.library:
                            sim.stalled[t.tid] = max(sim.stalled.get(t.tid, 0.0), sim.now + 0.02)
                            sim.stalls_fired += 1
                            break
                    if gate["thread"] is not None and gate["thread"].state == "blocked":
                        sim.wake(gate["thread"])
                if sim.add_step_trigger(scn["anchor"]["thread"], scn["anchor"]["k"], fire_local):
                    sim.wait_until(lambda: gate["open"], 5.0, poll=0.0005)
                if not gate["open"]:
                    fire_local()
                anchored = [sim.now]
                sim.probe("anchored_local_close")
            if anchored is None and scn["cause_delay"]:
                sim.sleep(scn["cause_delay"])
            sim.func_calls.clear()
            install_func_stalls(sim, scn.get("func_stalls"))
            late = scn.get("late_consumer")
            late_rec = []
            if late and point in ("open_idle", "open_traffic", "open_parked", "open_backlog", "closing"):
                def start_late():
                    rec = w.start_consumer("late_consumer")
                    th = rec["thread"]
                    th.stall_plan = sorted([p for p in (th.stall_plan or []) if p[0] < (1 << 59)] + [(th.steps + late["at"], late["dur"])])
                    late_rec.append(rec)
                w.call("late_starter", lambda: (sim.sleep(late["after"]), start_late()))
            if scn.get("write_stall") and cause in ("peer_rst", "peer_eof", "local_close") and \
                    point in ("open_backlog", "open_traffic") and w.peer.sock is not None and w.peer.sock.peer is not None:
                # the peer has stopped reading: output is still pending in the transport when the end comes
                w.net.stall_writes(w.peer.sock.peer, scn["write_stall"])

                def flood2():
                    w.node.send_messages([DiameterRequest(application_id=APP_ID, command_code=316, avps=[
                        SessionIdAVP(("n;3;%d" % i).encode()), OriginHostAVP(NODE_HOST), OriginRealmAVP(NODE_REALM),
                        DestinationRealmAVP(PEER_REALM)]) for i in range(4)])
                fl2 = w.call("flooder2", flood2)
                sim.wait_until(lambda: fl2["t1"] is not None, 1.0, poll=0.0002)
                sim.sleep(3 * tick)
            # ---- apply the cause ---------------------------------------------
            schedule_clock_jumps(sim, scn.get("clock_jumps"))
            st["cause_applied_at"] = sim.now
            st["state_at_cause"] = w.state()
            if anchored is not None:
                pass
            elif cause == "local_close":
                closer = w.call("close", w.node.close)
            elif cause == "local_close_cross_cea":
                # the application stops the node at the very moment the peer's CEA arrives: whichever
                # wins, the node must end Closed (directly, or through Open -> DPR -> DPA)
                cers = [m for m in w.peer.rx if m["code"] == C.CE and C.is_request(m)]
                order = sim.choose("cross", 2)
                if order == 0:
                    w.peer.send(C.cea(PEER_HOST, PEER_REALM, hbh=cers[-1]["hbh"], e2e=cers[-1]["e2e"]))
                    closer = w.call("close", w.node.close)
                else:
                    closer = w.call("close", w.node.close)
                    w.peer.send(C.cea(PEER_HOST, PEER_REALM, hbh=cers[-1]["hbh"], e2e=cers[-1]["e2e"]))
            elif cause == "peer_dpr":
                w.peer.send(C.dpr(PEER_HOST, PEER_REALM, hbh=0x77, e2e=0x88))
            elif cause in ("peer_cer_then_eof", "peer_cer_then_local_close"):
                # the peer opens an election (CER while we wait for its CEA), then the connection ends
                w.peer.send(C.cer(PEER_HOST, PEER_REALM, hbh=0x7c, e2e=0x8d))
                sim.sleep(scn.get("rst_gap", 0.0) + 6 * tick)
                if cause == "peer_cer_then_eof":
                    w.peer.close()
                else:
                    closer = w.call("close", w.node.close)
            elif cause == "peer_dpr_then_rst":
                # the peer announces the disconnect and is gone before our DPA can be written
                w.peer.b["answer_dpr"] = False
                if scn.get("write_stall"):
                    # the peer has stopped reading: our DPA cannot leave before the reset arrives
                    w.net.stall_writes(w.peer.sock.peer, scn["write_stall"])
                w.peer.send(C.dpr(PEER_HOST, PEER_REALM, hbh=0x7a, e2e=0x8b))
                gap = scn.get("rst_gap", 0.0)
                if gap:
                    sim.after(gap, lambda: w.peer.close(reset=True))
                else:
                    w.peer.close(reset=True)
            elif cause in ("peer_eof", "peer_rst"):
                pb = scn.get("partial_before_death")
                if pb and w.peer.sock is not None and w.peer.sock.state == "connected":
                    # the peer dies in the middle of a message: the first k bytes of a valid message are on the wire
                    # (and are read by the node) when the connection ends
                    whole = C.enc_msg(C.app_request(APP_ID, 316, 0x5a00, 0x6a00, "p;3;1", PEER_HOST, PEER_REALM, NODE_REALM)
                                      if pb["kind"] == "app" else C.dwr(PEER_HOST, PEER_REALM, hbh=0x5a01, e2e=0x6a01))
                    k_ = max(1, min(len(whole) - 1, int(pb["frac"] * len(whole))))
                    w.peer.send_raw(whole[:k_], label="partial")
                    sim.sleep(4 * w.net.cfg.max_latency + 3 * tick + 0.002)
                    sim.probe("death_mid_message")
                w.peer.close(reset=(cause == "peer_rst"))
            elif cause == "non_cea":
                w.peer.send(C.dwa(PEER_HOST, PEER_REALM, hbh=1, e2e=1))
            elif cause == "peer_dpa_late":
                dprs = [m for m in w.peer.rx if m["code"] == C.DP and C.is_request(m)]
                if dprs:
                    w.peer.send(C.dpa(PEER_HOST, PEER_REALM, hbh=dprs[-1]["hbh"], e2e=dprs[-1]["e2e"]))
                    w.peer.close()
                else:
                    w.peer.close()
            elif cause == "peer_dpr_cross":
                w.peer.send(C.dpr(PEER_HOST, PEER_REALM, hbh=0x79, e2e=0x8a))
                # the peer, having sent a DPR itself, closes after a moment
                sim.after(knobs["SLEEP_TIMER"] / 2 + 0.05, lambda: w.peer.close())
            elif cause in ("refused", "never", "unreachable"):
                pass       # the cause is the connect outcome itself
            # a local close issued while the state machine reports Closed is refused by the API
            # (documented guard): then there is no connection to end
            if cause in ("local_close", "local_close_cross_cea", "peer_cer_then_local_close"):
                sim.wait_until(lambda: closer["t1"] is not None, D, poll=0.002)
                st["close_call"] = {"ok": closer["ok"], "exc": closer["exc"]}

            if cause in ("local_close", "local_close_cross_cea", "peer_cer_then_local_close") and st.get("close_call", {}).get("ok") is False and \
                    "already closed" in (st["close_call"]["exc"] or ""):
                # the API refused the close() because the state machine (truthfully)
                # reported Closed at that instant: the caller was told, no cause was applied
                st["reached_point"] = False
                st["note"] = "close() refused by the restart guard: no termination cause applied"
                return
            eager = None
            if scn.get("eager_restart") and scn.get("restart") and cause not in ("local_close", "local_close_cross_cea"):
                old_threads = list(w.lib_threads())
                old_socks = list(w.node_socks())
                if sim.wait_until(lambda: w.state() == "Closed" and st["state_at_cause"] != "Closed" or
                                  (w.state() == "Closed" and all(t.state == "done" for t in old_threads)), D, poll=0.0005):
                    w.peer.b.update({"answer_cer": "valid", "answer_dpr": True})
                    w.net.cfg.connect_outcome = "ack"
                    w.net.cfg.personality = "linux"    # the restart runs in a cooperative environment
                    w.net.cfg.connect_delay = (0.0005, 0.004)
                    w.auto_peer_cer = True
                    w.cer_ids = (0x113, 0x224)
                    rec = w.start_node()
                    eager = {"rec": rec, "old_threads": old_threads, "old_socks": old_socks}
                    sim.probe("eager_restart")
            if eager is not None:
                ok = w.wait_state(("I-Open", "R-Open"), 10.0 + D)
                st["restart_open"] = ok
                if not ok:
                    viol("the same node object can be started again", "eager-restart-failed",
                         {"state": w.state(), "start_call": {"ok": eager["rec"]["ok"], "exc": eager["rec"]["exc"]},
                          "listeners": [repr(a) for a in w.net.listeners],
                          "threads": [(t.role, t.state, repr(t.wait_on)) for t in w.lib_threads() if t.state != "done"][:8]})
                # the old connection's workers get their full D to notice the stop
                sim.wait_until(lambda: all(t.state == "done" for t in eager["old_threads"]) and
                               all(s_.state == "closed" and not s_.selectors for s_ in eager["old_socks"]),
                               max(0.0, st["cause_applied_at"] + D - sim.now) + 0.05, poll=D / 60.0)
                alive = [(t.role, t.state, repr(t.wait_on)) for t in eager["old_threads"] if t.state != "done"]
                if alive:
                    viol("all of its worker threads terminate", "threads-alive", {"threads": alive, "state": w.state(), "eager": True})
                open_socks = [(s_.name, s_.state, len(s_.selectors)) for s_ in eager["old_socks"] if s_.state != "closed" or s_.selectors]
                if open_socks:
                    viol("releases its sockets", "sockets-open", {"sockets": open_socks, "eager": True})
                if consumer is not None and consumer["t1"] is None:
                    # the consumer has until the same deadline (the workers may have finished early)
                    sim.wait_until(lambda: consumer["t1"] is not None,
                                   max(0.0, st["cause_applied_at"] + D - sim.now) + 0.05, poll=D / 60.0)
                if consumer is not None and consumer["t1"] is None:
                    viol("application calls blocked waiting for a message return", "consumer-stuck",
                         {"thread_state": consumer["thread"].state, "wait_on": repr(consumer["thread"].wait_on), "eager": True})
                return
            # ---- oracle: within D ---------------------------------------------
            def released():
                if w.state() != "Closed":
                    return False
                if any(t.state != "done" for t in w.lib_threads()):
                    return False
                if any(s.state != "closed" or s.selectors for s in w.node_socks()):
                    return False
                return True
            sim.wait_until(released, D, poll=D / 60.0)
            st["state_after"] = w.state()
            if cause == "local_close" and st.get("close_call", {}).get("ok") is False and \
                    "already" in (st["close_call"]["exc"] or "") and st["state_at_cause"] == "Closed":
                # nothing was open yet as far as the API is concerned
                st["note"] = "close() refused: state machine reported Closed"
            if w.state() != "Closed":
                viol("the node reaches Closed", "not-closed",
                     {"state": w.state(), "D": D, "close_call": st.get("close_call")})
            alive = [(t.role, t.state, repr(t.wait_on)) for t in w.lib_threads() if t.state != "done"]
            if alive:
                viol("all of its worker threads terminate", "threads-alive",
                     {"threads": alive, "state": w.state()})
            open_socks = [(s.name, s.state, len(s.selectors)) for s in w.node_socks()
                          if s.state != "closed" or s.selectors]
            if open_socks:
                viol("releases its sockets", "sockets-open", {"sockets": open_socks, "state": w.state()})
            for rec in late_rec:
                if rec["t1"] is None and not any(v["sig"].startswith("C08/consumer-stuck") for v in violations):
                    # give a consumer that was descheduled its full stall plus D
                    sim.wait_until(lambda: rec["t1"] is not None, late["dur"] + D, poll=D / 40.0)
                    if rec["t1"] is None:
                        th = rec["thread"]
                        viol("application calls blocked waiting for a message return", "consumer-stuck",
                             {"thread_state": th.state, "wait_on": repr(th.wait_on), "state": w.state(),
                              "consumer": "entered get_message() during teardown", "late": late})
            if consumer is not None and consumer["t1"] is None:
                # the consumer has until the same deadline (everything else may have been released early)
                sim.wait_until(lambda: consumer["t1"] is not None,
                               max(0.0, st["cause_applied_at"] + D - sim.now) + 0.05, poll=D / 60.0)
            if consumer is not None and consumer["t1"] is None:
                th = consumer["thread"]
                viol("application calls blocked waiting for a message return", "consumer-stuck",
                     {"thread_state": th.state, "wait_on": repr(th.wait_on), "state": w.state()})
            assoc_locks = []
            for s_ in (w.node._association,):
                if s_ is None:
                    continue
                for nm in ("lock", "postprocess_recv_messages_lock"):
                    lk = getattr(s_, nm, None)
                    if lk is not None and getattr(lk, "_locked", False):
                        assoc_locks.append((nm, lk._owner.role if lk._owner else None))
            if assoc_locks and not alive:
                viol("no internal lock is left held", "lock-held", {"locks": assoc_locks})
            if violations or not scn.get("restart"):
                return
            # ---- restart on the same object ---------------------------------
            w.peer.b.update({"answer_cer": "valid", "answer_dpr": True})
            w.net.cfg.connect_outcome = "ack"
            w.net.cfg.personality = "linux"    # the restart runs in a cooperative environment
            w.net.cfg.connect_delay = (0.0005, 0.004)
            w.auto_peer_cer = True
            w.cer_ids = (0x111, 0x222)
            rec = w.start_node()
            ok = w.wait_state(("I-Open", "R-Open"), 10.0 + D)
            st["restart_open"] = ok
            if not ok:
                viol("the same node object can be started again", "restart-failed",
                     {"state": w.state(), "start_call": {"ok": rec["ok"], "exc": rec["exc"]},
                      "threads": [(t.role, t.state, repr(t.wait_on)) for t in w.lib_threads() if t.state != "done"]})
                return
            # ---- a long life: the same object goes through several more connections, each ended another way --
            for cyc in range(scn.get("cycles", 0)):
                how = ("peer_dpr", "local_close", "peer_eof", "peer_rst")[(cyc + scn.get("index", 0)) % 4]
                cons = w.start_consumer("consumer_c%d" % cyc)
                sim.sleep(4 * tick)
                w.peer.send(C.app_request(APP_ID, 316, 0x6100 + cyc, 0x6200 + cyc, "p;6;%d" % cyc, PEER_HOST, PEER_REALM, NODE_REALM))
                sim.sleep(6 * tick)
                t_end = sim.now
                if how == "peer_dpr":
                    w.peer.send(C.dpr(PEER_HOST, PEER_REALM, hbh=0x7700 + cyc, e2e=0x8800 + cyc))
                elif how == "local_close":
                    w.call("close_c%d" % cyc, w.node.close)
                else:
                    w.peer.close(reset=(how == "peer_rst"))

                def released_c():
                    return w.state() == "Closed" and all(t.state == "done" for t in w.lib_threads()) and \
                        all(s_.state == "closed" and not s_.selectors for s_ in w.node_socks()) and cons["t1"] is not None
                sim.wait_until(released_c, D, poll=D / 60.0)
                st["cycles_done"] = cyc + 1
                if not released_c():
                    viol("every way a connection ends leaves the node closed, released and restartable (later connections of the same object)",
                         "cycle-not-released",
                         {"cycle": cyc + 2, "how": how, "state": w.state(), "consumer_returned": cons["t1"] is not None,
                          "threads": [(t.role, t.state, repr(t.wait_on)) for t in w.lib_threads() if t.state != "done"][:6],
                          "sockets": [(s_.name, s_.state) for s_ in w.node_socks() if s_.state != "closed"][:4]})
                    return
                w.cer_ids = (0x120 + cyc, 0x230 + cyc)
                rec = w.start_node()
                if not w.wait_state(("I-Open", "R-Open"), 10.0 + D):
                    viol("the same node object can be started again", "restart-failed",
                         {"cycle": cyc + 2, "state": w.state(), "start_call": {"ok": rec["ok"], "exc": rec["exc"]}})
                    return

        sim.run_main(main)
        if not st["reached_point"]:
            return base_result(sim, [], summary={"note": "point not reached", "point": point},
                               extra={"faults": {}})
        for iv in w.invariant_violations[:1]:
            viol("the node reaches Closed [and] releases its sockets: whoever sees Closed may rely on the release",
                 "closed-visible-before-release", iv)
        faults = {"cause:" + cause: 1, "point:" + point: 1,
                  "preemption_in_bromelia_code": sim.preempt_line + sim.preempt_opcode}
        return base_result(sim, violations, summary={k: v for k, v in st.items()},
                           extra={"abstract_states": sorted(w.abstract_states), "faults": faults})


CHECK = C08()
