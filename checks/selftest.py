# -*- coding: utf-8 -*-
"""
check selftest determinism [--n N] [ids...]
    Every check: the first N scenarios are executed in two FRESH interpreters
    with different PYTHONHASHSEED values and different worker counts; the
    event-log digests must be pairwise identical.

check selftest mutants [patch files...]
    Each patch under selftest/mutants/*.patch names (first line, "# expect: Cxx")
    the property it must break; it is applied to a scratch worktree outside
    /repo and /verif and the corresponding check must report a violation.
"""
import os
import subprocess
import sys
import time

HERE = os.path.dirname(os.path.dirname(os.path.abspath(__file__)))
ALL = ["C03", "C04", "C05", "C06", "C07", "C08", "C13", "C14", "C15", "C16"]


def _digests(pid, n, hashseed, workers):
    env = dict(os.environ)
    env["PYTHONHASHSEED"] = str(hashseed)
    env["VERIF_WORKERS"] = str(workers)
    out = subprocess.run([os.path.join(HERE, "check"), pid, "--digests", str(n), "--no-evidence"],
                         env=env, stdout=subprocess.PIPE, stderr=subprocess.STDOUT, timeout=3600).stdout.decode()
    d = {}
    for line in out.splitlines():
        if line.startswith("DIGEST "):
            _, p, i, dig, sig = line.split(" ", 4)
            d[int(i)] = (dig, sig)
    return d


def determinism(argv):
    n = 24
    ids = []
    it = iter(argv)
    for a in it:
        if a == "--n":
            n = int(next(it))
        else:
            ids.append(a)
    ids = ids or ALL
    bad = 0
    total = 0
    t0 = time.time()
    for pid in ids:
        a = _digests(pid, n, 1, os.cpu_count() or 4)
        b = _digests(pid, n, 4242, 3)
        mism = [i for i in sorted(set(a) | set(b)) if a.get(i) != b.get(i) or a.get(i, ("ERROR",))[0] == "ERROR"]
        total += len(a)
        bad += len(mism)
        print("determinism %s: %d scenarios x 2 fresh interpreters (PYTHONHASHSEED 1 / 4242, workers %d / 3): %d mismatches %s" % (
            pid, len(a), os.cpu_count() or 4, len(mism), mism[:8]))
    print("determinism total=%d mismatches=%d wall=%.0fs" % (total, bad, time.time() - t0))
    return 1 if bad else 0


def mutants(argv):
    mdir = os.path.join(HERE, "selftest", "mutants")
    files = argv or sorted(os.path.join(mdir, f) for f in os.listdir(mdir) if f.endswith(".patch"))
    missed = 0
    for f in files:
        expect = None
        runs = None
        with open(f) as fh:
            for line in fh:
                if line.startswith("# expect:"):
                    expect = line.split(":", 1)[1].split()
                if line.startswith("# runs:"):
                    runs = line.split(":", 1)[1].strip()
                if not line.startswith("#"):
                    break
        if not expect:
            print("mutant %s: no '# expect:' header, skipped" % os.path.basename(f))
            continue
        cmd = [os.path.join(HERE, "tools", "mutant.sh"), f] + expect + ["--", "--triage"] + (["--runs", runs] if runs else [])
        out = subprocess.run(cmd, stdout=subprocess.PIPE, stderr=subprocess.STDOUT, timeout=7200).stdout.decode()
        caught = {}
        cur = None
        for line in out.splitlines():
            if line.startswith("property="):
                cur = line.split()[0].split("=")[1]
                caught.setdefault(cur, 0)
            elif cur and line[:6].strip().isdigit() and "/" in line:
                caught[cur] += 1
        ok = all(caught.get(e, 0) > 0 for e in expect)
        if not ok:
            missed += 1
        print("mutant %-40s expect=%s signatures=%s %s" % (os.path.basename(f), expect, caught, "CAUGHT" if ok else "MISSED"))
        if "PATCH-DOES-NOT-APPLY" in out:
            print("   patch does not apply to the current tree")
    return 1 if missed else 0


def main(argv):
    if not argv:
        print(__doc__)
        return 2
    if argv[0] == "determinism":
        return determinism(argv[1:])
    if argv[0] == "mutants":
        return mutants(argv[1:])
    print(__doc__)
    return 2
