# -*- coding: utf-8 -*-
"""
C16 -- Generated Session-Ids are unique for the life of the process and
well-formed.

World C: the generator's only input besides the call history is the clock
(datetime.utcnow), which the simulator owns: many calls within one clock
second, a clock that does not advance, a clock that jumps forward.
"""

import random
import re

from simkit.kernel import Sim
from simkit.seams import SimWorld, bromelia_trace_root, import_bromelia
from simkit.driver import Check, base_result

IDENTITIES = ["hss.epc.example.org", "mme.epc.example.org", "hss.epc.example", "a", "mme.epc.example.org.lab"]

TYPED = [
    ("bromelia.lib.etsi_3gpp_s6a.messages", "UpdateLocationRequest",
     {"destination_realm": "r.example", "user_name": "u1", "visited_plmn_id": bytes.fromhex("27f450")}),
    ("bromelia.lib.etsi_3gpp_s6a.messages", "AuthenticationInformationRequest",
     {"destination_realm": "r.example", "user_name": "u1", "visited_plmn_id": bytes.fromhex("27f450")}),
    ("bromelia.lib.etsi_3gpp_s6a.messages", "UpdateLocationAnswer", {}),
    ("bromelia.lib.etsi_3gpp_gx.messages", "CreditControlRequest", {"destination_realm": "r.example"}),
    ("bromelia.lib.etsi_3gpp_rx.messages", "AARequest", {"destination_realm": "r.example"}),
    ("bromelia.lib.etsi_3gpp_swx.messages", "MultimediaAuthRequest", {"destination_realm": "r.example", "user_name": "u1"}),
    ("bromelia.lib.ietf_rfc6733.messages", "SessionTerminationRequest", {"destination_realm": "r.example"}),
]

MAX32 = 1 << 32


class C16(Check):
    prop = "C16"
    quick_runs = 400
    thorough_runs = 8000
    run_wall = 600.0
    rule = ("one run = one generation history (Session-Id / Acct-Multi-Session-Id AVPs from identity strings, typed "
            "messages created with session_id=identity, bulk re-origin via update_avps that may switch identity, "
            "Session-Id given as bytes) interleaved with steps of the simulated clock (0, ms, 1 s, many s, forward "
            "jumps); distinct = distinct abstract history (sequence of op kinds, identity indices and clock-second "
            "changes); non-trivial = at least one identity switch or at least two generations within one clock second")
    components_real = ["bromelia._internal_utils.SessionHandler", "SessionIdAVP / AcctMultiSessionIdAVP constructors",
                       "typed message constructors", "DiameterMessage.update_avps"]
    components_stub = ["datetime.utcnow (simulated wall clock, monotone non-decreasing)"]
    assumptions = ["a quarter of the runs also step the wall clock backwards; the counter is fast-forwarded near 2^32 "
                   "through the anchored state SessionHandler.id when that attribute exists"]

    def gen_scenario(self, rng, tier, index):
        nid = rng.choice([1, 2, 2, 3, 4])
        ids = rng.sample(IDENTITIES, nid)
        n = rng.randint(3, 40 if tier == "quick" else 200)
        ops = []
        nmsgs = 0
        # clock behaviour of this run
        style = rng.choice(["frozen", "fast", "mixed", "mixed", "slow"])
        backward = rng.random() < 0.25
        for _ in range(n):
            x = rng.random()
            if x < 0.22:
                ops.append(["sid", rng.randrange(nid)])
            elif x < 0.30:
                ops.append(["amsid", rng.randrange(nid)])
            elif x < 0.48:
                ops.append(["typed", rng.randrange(len(TYPED)), rng.randrange(nid)])
                nmsgs += 1
            elif x < 0.75 and nmsgs:
                ops.append(["reorigin", rng.randrange(nmsgs), rng.randrange(nid)])
            elif x < 0.79:
                ops.append(["sid_bytes", rng.randrange(nid), rng.randrange(1000)])
            elif x < 0.84 and nmsgs:
                # bulk update that supplies the Session-Id as bytes together with a new origin,
                # in either key order: the supplied bytes must be carried unchanged
                ops.append(["reorigin_given", rng.randrange(nmsgs), rng.randrange(nid), rng.randrange(1000),
                            rng.choice(["sid_first", "host_first"])])
            elif x < 0.87:
                ops.append(["typed_bytes", rng.randrange(len(TYPED)), rng.randrange(nid), rng.randrange(1000)])
            elif x < 0.90:
                # other library objects come to life in the same process (a Diameter node is configured,
                # base messages are built): none of that may disturb the generator
                ops.append(["new_node", rng.randrange(nid)])
            elif x < 0.93 and backward:
                # the wall clock is stepped BACK (NTP step, VM resume): uniqueness is promised for the life
                # of the process, whatever the clock does
                ops.append(["clock_back", rng.choice([1.0, 2.0, 3.0, 60.0])])
            elif x < 0.915:
                # a process that has been alive for a very long time: the generator's counter (the
                # anchored state SessionHandler.id) is fast-forwarded close to 2^32
                ops.append(["ffwd", rng.choice([1, 2, 5, 40])])
            else:
                if style == "frozen":
                    dt = 0.0
                elif style == "fast":
                    dt = rng.choice([0.0, 0.001, 0.01, 0.2])
                elif style == "slow":
                    dt = rng.choice([1.0, 2.0, 61.0, 3600.0])
                else:
                    dt = rng.choice([0.0, 0.001, 0.3, 1.0, 1.0, 5.0, 86400.0])
                ops.append(["clock", dt])
        start_frac = rng.choice([0.0, 0.5, 0.999])
        # later additions draw from a generator of their own (the stream above stays what it was)
        rng2 = random.Random(rng.getrandbits(48))
        for op in ops:
            if op[0] == "reorigin" and rng2.random() < 0.3:
                # the application keeps ONE "new origin" dict and applies it to a batch of messages
                op[0] = "reorigin_batch"
                op.append(rng2.choice([2, 3, 5]))
        return {"identities": ids, "ops": ops, "start_frac": start_frac,
                "sched": {"policy": "sequential", "p_sync": 0.0, "p_line": 0.0}}

    def shrink(self, scn):
        import copy
        ops = scn["ops"]
        n = len(ops)
        # drop halves, then single ops
        if n > 4:
            for a, b in ((0, n // 2), (n // 2, n)):
                c = copy.deepcopy(scn)
                del c["ops"][a:b]
                yield c
        for i in range(n):
            c = copy.deepcopy(scn)
            del c["ops"][i]
            yield c

    def nontrivial(self, res):
        return res.get("identity_switches", 0) > 0 or res.get("same_second_pairs", 0) > 0

    def sample(self, scn, res):
        return {"identities": scn["identities"], "ops": scn["ops"][:40], "outcome": res.get("summary")}

    def _fix_reorigin_indices(self, ops):
        return ops

    def run(self, scn, tape_in=None):
        import importlib
        import_bromelia()
        from bromelia._internal_utils import SessionHandler
        from bromelia.avps.ietf.rfc6733 import SessionIdAVP, AcctMultiSessionIdAVP
        sim = Sim(random.Random(scn["seed"]), tape_in=tape_in, quantum=1e-7, max_steps=3_000_000,
                  horizon=1e9, p_sync=0.0, p_line=0.0, trace_root=bromelia_trace_root(),
                  epoch=1_700_000_000.0 + scn.get("start_frac", 0.0))
        world = SimWorld(sim)
        world.install()
        resolved = [getattr(importlib.import_module(m), n) for m, n, _ in TYPED]
        ids = scn["identities"]
        violations = []
        issued = {}         # session id string -> record
        msgs = []
        stats = {"generated": 0, "identity_switches": 0, "same_second_pairs": 0, "clock_steps": 0}
        hist_sig = []

        def check_id(sid_bytes, identity, opi, kind):
            stats["generated"] += 1
            try:
                s = sid_bytes.decode("utf-8")
            except Exception:
                violations.append({"clause": "well-formed", "sig": "C16/not-utf8", "detail": {"op": opi}})
                return
            sec = int(sim.wall_clock())
            if s in issued:
                a = issued[s]
                violations.append({
                    "clause": "Session-Id generated twice",
                    "sig": "C16/duplicate/%s-after-%s%s" % (kind, a["kind"], "/same-second" if a["sec"] == sec else ""),
                    "detail": {"session_id": s, "first": a, "second": {"op": opi, "kind": kind, "sec": sec}}})
            else:
                for other in issued.values():
                    if other["sec"] == sec:
                        stats["same_second_pairs"] += 1
                        break
                issued[s] = {"op": opi, "kind": kind, "sec": sec}
            if not s.startswith(identity + ";"):
                violations.append({"clause": "starts with the given identity", "sig": "C16/prefix/" + kind,
                                   "detail": {"session_id": s, "identity": identity, "op": opi}})
                return
            rest = s[len(identity) + 1:].split(";")
            ok = len(rest) >= 2 and rest[0].isdigit() and rest[1].isdigit() and \
                int(rest[0]) < MAX32 and int(rest[1]) < MAX32 and all(len(p) > 0 for p in rest)
            if not ok:
                violations.append({"clause": "identity;high32;low32[;optional]", "sig": "C16/form/" + kind,
                                   "detail": {"session_id": s, "op": opi}})

        def main(sim):
            # the library is "imported" at simulated time 0 of this process
            SessionHandler.reset()
            last_identity = None
            for opi, op in enumerate(scn["ops"]):
                kind = op[0]
                if violations:
                    break
                try:
                    if kind == "clock":
                        stats["clock_steps"] += 1
                        before = int(sim.wall_clock())
                        if op[1] > 0:
                            sim.sleep(op[1])
                        hist_sig.append("c%d" % min(2, int(sim.wall_clock()) - before))
                    elif kind == "sid":
                        a = SessionIdAVP(ids[op[1]])
                        check_id(a.data, ids[op[1]], opi, kind)
                        hist_sig.append("s%d" % op[1])
                    elif kind == "amsid":
                        a = AcctMultiSessionIdAVP(ids[op[1]])
                        check_id(a.data, ids[op[1]], opi, kind)
                        hist_sig.append("a%d" % op[1])
                    elif kind == "typed":
                        _, _, kw = TYPED[op[1]]
                        m = resolved[op[1]](session_id=ids[op[2]], origin_host=ids[op[2]], **kw)
                        msgs.append([m, ids[op[2]]])
                        check_id(m.session_id_avp.data, ids[op[2]], opi, kind)
                        hist_sig.append("t%d" % op[2])
                    elif kind == "reorigin":
                        if not msgs:
                            continue
                        # each message is re-originated once: a second bulk update of
                        # the same object fails for a reason unrelated to Session-Ids
                        # (named view / AVP list coherence, property C11)
                        ent = msgs.pop(op[1] % len(msgs))
                        new = ids[op[2]]
                        if new != ent[1]:
                            stats["identity_switches"] += 1
                        ent[0].update_avps({"origin_host": new})
                        ent[1] = new
                        check_id(ent[0].session_id_avp.data, new, opi, kind)
                        hist_sig.append("r%d" % op[2])
                        raw = ent[0].dump()
                        if ent[0].session_id_avp.data not in raw:
                            violations.append({"clause": "message carries the regenerated Session-Id",
                                               "sig": "C16/reorigin-not-in-dump", "detail": {"op": opi}})
                    elif kind == "reorigin_batch":
                        new = ids[op[2]]
                        upd = {"origin_host": new}          # one dict object for the whole batch
                        for _ in range(op[3]):
                            if not msgs:
                                break
                            ent = msgs.pop(op[1] % len(msgs))
                            if new != ent[1]:
                                stats["identity_switches"] += 1
                            ent[0].update_avps(upd)
                            ent[1] = new
                            check_id(ent[0].session_id_avp.data, new, opi, "reorigin")
                            hist_sig.append("r%d" % op[2])
                            stats["shared_dict_updates"] = stats.get("shared_dict_updates", 0) + 1
                            if ent[0].session_id_avp.data not in ent[0].dump():
                                violations.append({"clause": "message carries the regenerated Session-Id",
                                                   "sig": "C16/reorigin-not-in-dump", "detail": {"op": opi}})
                    elif kind == "clock_back":
                        sim.wall_offset -= op[1]
                        stats["clock_back"] = stats.get("clock_back", 0) + 1
                        hist_sig.append("k")
                    elif kind == "ffwd":
                        cur_id = getattr(SessionHandler, "id", None)
                        if isinstance(cur_id, int) and cur_id < MAX32 - 1000:
                            SessionHandler.id = MAX32 - op[1]
                            stats["fast_forwards"] = stats.get("fast_forwards", 0) + 1
                        hist_sig.append("f")
                    elif kind == "new_node":
                        from bromelia.setup import Diameter
                        Diameter(config={"MODE": "CLIENT", "APPLICATIONS": [], "LOCAL_NODE_HOSTNAME": ids[op[1]],
                                         "LOCAL_NODE_REALM": "realm.local", "LOCAL_NODE_IP_ADDRESS": "127.0.0.1",
                                         "LOCAL_NODE_PORT": 3868, "PEER_NODE_HOSTNAME": "peer.remote",
                                         "PEER_NODE_REALM": "realm.remote", "PEER_NODE_IP_ADDRESS": "127.0.0.1",
                                         "PEER_NODE_PORT": 3868, "WATCHDOG_TIMEOUT": 30})
                        hist_sig.append("n")
                    elif kind in ("reorigin_given", "typed_bytes"):
                        st0 = (getattr(SessionHandler, "init", None), getattr(SessionHandler, "id", None))
                        if kind == "typed_bytes":
                            given = ("%s;%d;%d;given-t" % (ids[op[2]], 78, op[3])).encode()
                            _, _, kw = TYPED[op[1]]
                            m = resolved[op[1]](session_id=given, origin_host=ids[op[2]], **kw)
                            got = m.session_id_avp.data
                            carried = given in m.dump()
                        else:
                            if not msgs:
                                continue
                            ent = msgs.pop(op[1] % len(msgs))
                            new = ids[op[2]]
                            given = ("%s;%d;%d;given-u" % (new, 79, op[3])).encode()
                            upd = {"session_id": given, "origin_host": new} if op[4] == "sid_first" else \
                                {"origin_host": new, "session_id": given}
                            ent[0].update_avps(upd)
                            got = ent[0].session_id_avp.data
                            carried = given in ent[0].dump()
                        st1 = (getattr(SessionHandler, "init", None), getattr(SessionHandler, "id", None))
                        if got != given or not carried:
                            violations.append({"clause": "Session-Id supplied as bytes is carried unchanged",
                                               "sig": "C16/bytes-altered/" + kind,
                                               "detail": {"op": opi, "opspec": op, "given": given.decode(), "got": repr(got),
                                                          "in_dump": carried}})
                        elif st0 != st1:
                            violations.append({"clause": "Session-Id supplied as bytes consumes nothing",
                                               "sig": "C16/bytes-consumed/" + kind, "detail": {"op": opi, "before": st0, "after": st1}})
                        hist_sig.append("g")
                    elif kind == "sid_bytes":
                        given = ("%s;%d;%d;given" % (ids[op[1]], 77, op[2])).encode()
                        st0 = (getattr(SessionHandler, "init", None), getattr(SessionHandler, "id", None))
                        a = SessionIdAVP(given)
                        st1 = (getattr(SessionHandler, "init", None), getattr(SessionHandler, "id", None))
                        if a.data != given:
                            violations.append({"clause": "Session-Id supplied as bytes is carried unchanged",
                                               "sig": "C16/bytes-altered", "detail": {"op": opi, "given": given.decode(),
                                                                                     "got": repr(a.data)}})
                        if st0 != st1:
                            violations.append({"clause": "Session-Id supplied as bytes consumes nothing",
                                               "sig": "C16/bytes-consumed", "detail": {"op": opi, "before": st0, "after": st1}})
                        hist_sig.append("b")
                except BaseException as e:      # noqa
                    if type(e).__name__ in ("SimStop", "SimHang"):
                        raise
                    violations.append({"clause": "generation raised", "sig": "C16/raised/%s/%s" % (kind, type(e).__name__),
                                       "detail": {"op": opi, "err": "%s: %s" % (type(e).__name__, e)}})
            return None

        sim.run_main(main)
        import hashlib
        hs = hashlib.sha256("".join(hist_sig).encode()).hexdigest()[:16]
        return base_result(sim, violations, summary=dict(stats),
                           extra={"identity_switches": stats["identity_switches"],
                                  "same_second_pairs": stats["same_second_pairs"],
                                  "sched_sig": hs,
                                  "faults": {"clock_steps": stats["clock_steps"], "clock_stepped_back": stats.get("clock_back", 0),
                                             "counter_fast_forward": stats.get("fast_forwards", 0),
                                             "identity_switch": stats["identity_switches"],
                                             "generation_within_same_clock_second": stats["same_second_pairs"]}})


CHECK = C16()
