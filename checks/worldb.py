# -*- coding: utf-8 -*-
"""
World B -- the application layer (bromelia/bromelia.py).

A real ``Bromelia`` object built from a generated YAML file, real ``Worker``
objects constructed on the simulated manager, their recv_handler/send_handler
and ``Bromelia.main`` running as simulator threads, routes registered through
the real ``@app.route`` decorator.  B1: the connection object underneath each
Worker (``worker.app``, normally a ``Diameter``) is a thin stub whose
get_message() is fed by the scenario and whose send_message(s) records what
leaves.
"""

import os
import random
import tempfile

from simkit.kernel import Sim, SimStop
from simkit.seams import SimWorld, bromelia_trace_root, import_bromelia
from ref import codec as C

# (name in bromelia.constants of app id, vendor id name, numeric app id)
APPS = [
    ("DIAMETER_APPLICATION_S6a_S6d", "VENDOR_ID_3GPP", 16777251),
    ("DIAMETER_APPLICATION_SWm", "VENDOR_ID_3GPP", 16777264),
    ("DIAMETER_APPLICATION_Gx", "VENDOR_ID_3GPP", 16777238),
    ("DIAMETER_APPLICATION_Rx", "VENDOR_ID_3GPP", 16777236),
]

LOCAL_HOST, LOCAL_REALM = "app.local", "realm.local"
PEER_HOST, PEER_REALM = "peer.remote", "realm.remote"

HOT_FUNCS_B = [
    "PendingAnswer.wait", "PendingAnswer.notify", "PendingAnswer.update_msg",
    "Bromelia.send_message", "Bromelia.handler_pending_answers",
    "Bromelia.callback_route", "Bromelia.main", "Bromelia.get_incoming_message",
    "Worker.insert_pending_answer", "Worker.remove_pending_answer",
    "Worker.is_pending_answer", "Worker.get_pending_answer",
    "Worker.set_outgoing_message", "Worker.send_message", "Worker.send_handler",
    "Worker.recv_handler", "Worker.notify_incoming_message",
]


def yaml_text(app_indices_per_worker):
    lines = ["api_version: v1", "name: SIMAPP", "spec:"]
    for wi, idxs in enumerate(app_indices_per_worker):
        lines.append("  - applications:")
        for ai in idxs:
            lines.append("      - vendor_id: %s" % APPS[ai][1])
            lines.append("        app_id: %s" % APPS[ai][0])
        lines += [
            "    mode: Client",
            "    watchdog_timeout: 30",
            "    transport_type: TCP",
            "    local:",
            "      ip_address: 127.0.0.1",
            "      hostname: %s" % LOCAL_HOST,
            "      realm: %s" % LOCAL_REALM,
            "      port: %d" % (3870 + wi),
            "    peer:",
            "      ip_address: 127.0.0.1",
            "      hostname: %s" % PEER_HOST,
            "      realm: %s" % PEER_REALM,
            "      port: %d" % (3868 + wi),
        ]
    return "\n".join(lines) + "\n"


class StubConnection(object):
    """Stands in for the ``Diameter`` object underneath a Worker."""

    def __init__(self, worldb, index, config):
        self.wb = worldb
        self.index = index
        self.config = config
        self.inbox = worldb.world.queue.Queue()
        self.sent = []          # (seq, step, time, raw bytes, msg object)
        self.taken = []         # messages handed to the application layer (recv_handler took them)
        self.on_send = None
        self._arrivals = []
        self._wire = None

    # --- the API Worker uses ---------------------------------------------
    def get_message(self):
        m = self.inbox.get()
        self.taken.append((self.wb.sim.steps, self.wb.sim.now, m))
        self.wb.hist("taken", conn=self.index, hbh=m.header.hop_by_hop.hex(),
                     req=m.header.is_request())
        return m

    def send_message(self, msg):
        self._record(msg)

    def send_messages(self, msgs):
        for m in msgs:
            self._record(m)

    def _record(self, msg):
        sim = self.wb.sim
        sim.sync_point("stub.send")
        raw = msg.dump()
        self.sent.append((sim.steps, sim.now, raw, msg))
        self.wb.hist("sent", conn=self.index, hbh=msg.header.hop_by_hop.hex(),
                     req=msg.header.is_request())
        if self.on_send:
            self.on_send(self, msg, raw)

    def is_open(self):
        return True

    # --- scenario side -----------------------------------------------------
    def arrive(self, raw):
        """Bytes arrive from the peer (event context): handed to the stub's
        wire thread, which parses them with the real decoder and makes them
        available to recv_handler."""
        from bromelia.base import DiameterMessage
        with self.wb.sim.untraced():
            msgs = DiameterMessage.load(raw)     # parsing "on the wire" costs no simulated time
        self._arrivals.extend(msgs)
        t = self._wire
        if t is not None and t.state == "blocked":
            self.wb.sim.wake(t)

    def _wire_loop(self):
        from bromelia.base import DiameterMessage
        sim = self.wb.sim
        while True:
            while self._arrivals:
                self.inbox.put(self._arrivals.pop(0))
            sim.block(("wire", self.index))

    def start_wire(self):
        self._wire = self.wb.sim.spawn(self._wire_loop, role="W:wire%d" % self.index)


class WorldB(object):
    full_stack = False

    def latency(self):
        return 0.0

    def __init__(self, scn, tape_in=None):
        import_bromelia()
        self.scn = scn
        sched = scn["sched"]
        self.sim = Sim(random.Random(scn["seed"]), tape_in=tape_in,
                       quantum=sched.get("quantum", 2e-6),
                       max_steps=scn.get("max_steps", 3_000_000),
                       horizon=scn.get("horizon", 60.0),
                       p_sync=sched.get("p_sync", 0.15), p_line=sched.get("p_line", 0.0),
                       opcode_funcs=HOT_FUNCS_B if sched.get("opcode") else (),
                       trace_root=bromelia_trace_root())
        src = None
        if scn.get("id_boundary"):
            # the library's random source hands out boundary values first (0, all ones, ...)
            import random as _r
            rr = _r.Random(scn["seed"] ^ 0xB0B)
            first = [b"\x00\x00\x00\x00", b"\xff\xff\xff\xff", b"\x00\x00\x00\x01", b"\x80\x00\x00\x00",
                     b"\x7f\xff\xff\xff", b"\x00\x00\x01\x00"]
            rr.shuffle(first)
            state = {"q": first + first}      # each value once for hop-by-hop and once for end-to-end draws

            def src(n, state=state, rr=rr):
                if n == 4 and state["q"]:
                    return state["q"].pop(0)
                return bytes(rr.getrandbits(8) for _ in range(n))
        self.world = SimWorld(self.sim, knobs=scn.get("knobs"), urandom=src,
                              urandom_seed=scn["seed"] ^ 0xB0B)
        self.world.install()
        self.events = []
        self.app = None
        self.workers = []
        self.stubs = []
        self.threads = {}

    def hist(self, kind, **kw):
        ev = {"step": self.sim.steps, "t": self.sim.now, "kind": kind}
        ev.update(kw)
        self.events.append(ev)
        self.sim.log("hist", kind, kw.get("hbh", ""))
        return ev

    def build(self, app_indices_per_worker):
        """Create the Bromelia app and its Workers (call inside the sim)."""
        import bromelia.bromelia as bro
        d = tempfile.mkdtemp(prefix="verif-worldb-")
        path = os.path.join(d, "config.yaml")
        with open(path, "w") as f:
            f.write(yaml_text(app_indices_per_worker))
        try:
            app = bro.Bromelia(config_file=path)
        finally:
            os.unlink(path)
            os.rmdir(d)
        self.app = app
        bro.Worker.associations = dict()
        bro.Worker.recv_queues = list()
        mgr = self.world.manager
        for i, cfg in enumerate(app.configs):
            stub = StubConnection(self, i, bro.Config(cfg) if hasattr(bro, "Config") else cfg)
            w = bro.Worker(stub, mgr)
            self.stubs.append(stub)
            self.workers.append(w)
        app.recv_queues = bro.Worker.recv_queues
        app.associations = bro.Worker.associations
        return app

    def build_second_app(self, app_indices_per_worker):
        """Another Bromelia object of the same process (same configuration file contents), never started:
        whatever is registered on it belongs to it alone."""
        import bromelia.bromelia as bro
        d = tempfile.mkdtemp(prefix="verif-worldb-")
        path = os.path.join(d, "config.yaml")
        with open(path, "w") as f:
            f.write(yaml_text(app_indices_per_worker))
        try:
            return bro.Bromelia(config_file=path)
        finally:
            os.unlink(path)
            os.rmdir(d)

    def start(self):
        """What Bromelia._run / Worker.run do once connections are open."""
        th = self.world.threading
        sim = self.sim
        for st_ in self.stubs:
            st_.start_wire()
        for i, w in enumerate(self.workers):
            w.is_open.set()
            for nm, fn in (("recv_handler", w.recv_handler), ("send_handler", w.send_handler)):
                t = th.Thread(name="B:%s%d" % (nm, i), target=fn, daemon=True)
                t.start()
                self.threads["%s%d" % (nm, i)] = t
        t = th.Thread(name="B:bromelia_main", target=self.app.main)
        t.start()
        self.threads["main"] = t

    def call(self, role, fn, *args, **kw):
        rec = {"role": role, "t0": self.sim.now, "t1": None, "ok": None, "exc": None,
               "ret": None, "step1": None}

        def body():
            try:
                rec["ret"] = fn(*args, **kw)
                rec["ok"] = True
            except SimStop:
                raise
            except BaseException as e:      # noqa
                if type(e).__name__ == "SimHang":
                    raise
                rec["ok"] = False
                rec["exc"] = "%s: %s" % (type(e).__name__, e)
            rec["t1"] = self.sim.now
            rec["step1"] = self.sim.steps
        rec["thread"] = self.sim.spawn(body, role="B:" + role)
        return rec


def draw_sched_b(rng):
    pol = rng.choice(["random", "random", "sticky", "line", "opcode", "stall"])
    d = {"policy": pol, "p_sync": 0.15, "p_line": 0.0, "opcode": False,
         "quantum": rng.choice([1e-7, 2e-7, 5e-7, 1e-6, 2e-6])}
    if pol == "sticky":
        d["p_sync"] = rng.choice([0.01, 0.03])
    elif pol in ("random", "stall"):
        d["p_sync"] = rng.choice([0.1, 0.3, 0.5])
    elif pol == "line":
        d["p_sync"] = rng.choice([0.05, 0.2])
        d["p_line"] = rng.choice([0.002, 0.02, 0.1])
    elif pol == "opcode":
        d["p_sync"] = rng.choice([0.05, 0.2])
        d["p_line"] = rng.choice([0.01, 0.05])
        d["opcode"] = True
    return d


def draw_knobs_b(rng):
    # the shipped values are ticker 0.1 ms << PROCESS_TIMER 1 ms: several per-message threads sit in
    # the same barrier window and are released together.  Keep that relation in most runs.
    return {
        "BROMELIA_TICKER": rng.choice([0.0001, 0.0002, 0.0005, 0.001, 0.002]),
        "PROCESS_TIMER": rng.choice([0.001, 0.001, 0.002, 0.005]),
        "SEND_THRESHOLD_TICKER": rng.choice([0.001, 0.005, 0.02, 0.05]),
    }


# ---------------------------------------------------------------------------------------------
# World B2 -- the full stack: Bromelia.run() -> Worker.start() -> Worker.run() ->
# Diameter.context() -> a real Diameter node per connection on the simulated OS, each facing a
# scripted reference peer.  Nothing between the application's handlers and the wire is a stub.
# ---------------------------------------------------------------------------------------------

class _HeaderView(object):
    def __init__(self, m):
        self.hop_by_hop = m["hbh"].to_bytes(4, "big")
        self.end_to_end = m["e2e"].to_bytes(4, "big")
        self._req = C.is_request(m)

    def is_request(self):
        return self._req


class _MsgView(object):
    """What the observers of a connection need of a message seen on the wire (reference decoding)."""

    def __init__(self, m):
        self.header = _HeaderView(m)
        self.m = m


class WireConnection(object):
    """Observer with StubConnection's interface for a real node + scripted peer pair: `sent` is what the
    peer received on the wire (application messages only), `arrive` makes the peer send bytes, `taken`
    is what the Worker's recv_handler obtained from Diameter.get_message()."""

    def __init__(self, worldb, index, peer, net_cuts):
        self.wb = worldb
        self.index = index
        self.peer = peer
        self.sent = []
        self.taken = []
        self.on_send = None
        self.node = None
        self.net_cuts = net_cuts
        peer.on_message = self._peer_got

    def _peer_got(self, m):
        if m["app"] == 0 and m["code"] in (C.CE, C.DW, C.DP):
            return
        sim = self.wb.sim
        view = _MsgView(m)
        raw = m["raw"]
        self.sent.append((sim.steps, sim.now, raw, view))
        self.wb.hist("sent", conn=self.index, hbh=view.header.hop_by_hop.hex(), req=view.header.is_request())
        if self.on_send:
            self.on_send(self, view, raw)

    def arrive(self, raw):
        # event context: the scripted peer writes to its socket; segmentation/latency are the network's
        self.peer.send_raw(raw, label="app")

    def note_taken(self, m):
        self.taken.append((self.wb.sim.steps, self.wb.sim.now, m))
        self.wb.hist("taken", conn=self.index, hbh=m.header.hop_by_hop.hex(), req=m.header.is_request())


class WorldB2(WorldB):
    full_stack = True

    def __init__(self, scn, tape_in=None):
        from simkit.net import NetConfig
        from ref.peer import ScriptedPeer, History
        import_bromelia()
        self.scn = scn
        sched = scn["sched"]
        from checks.worlda import HOT_FUNCS
        self.sim = Sim(random.Random(scn["seed"]), tape_in=tape_in,
                       quantum=sched.get("quantum", 2e-6),
                       max_steps=scn.get("max_steps", 3_000_000),
                       horizon=scn.get("horizon", 60.0),
                       p_sync=sched.get("p_sync", 0.15), p_line=sched.get("p_line", 0.0),
                       opcode_funcs=(HOT_FUNCS_B + HOT_FUNCS) if sched.get("opcode") else (),
                       trace_root=bromelia_trace_root())
        self.world = SimWorld(self.sim, netcfg=NetConfig(**scn.get("net", {})), knobs=scn.get("knobs"),
                              urandom_seed=scn["seed"] ^ 0xB0B)
        self.world.install()
        self.net = self.world.net
        self.events = []
        self.app = None
        self.workers = []
        self.stubs = []
        self.threads = {}
        self.peers = []
        self.phist = History(self.sim)
        self._ScriptedPeer = ScriptedPeer

    def latency(self):
        """Simulated seconds one message may legitimately spend between the wire and the Worker queues, in
        each direction (to be added to liveness bounds)."""
        k = self.world.knobs
        cfg = self.net.cfg
        return 1.0 + 2 * k["TRACKING_SOCKET_EVENTS_TIMEOUT"] + 60 * k["STATE_MACHINE_TICKER"] + \
            (cfg.max_fragments + 2) * cfg.max_latency * 4

    def build(self, app_indices_per_worker):
        import bromelia.bromelia as bro
        d = tempfile.mkdtemp(prefix="verif-worldb-")
        path = os.path.join(d, "config.yaml")
        with open(path, "w") as f:
            f.write(yaml_text(app_indices_per_worker))
        try:
            app = bro.Bromelia(config_file=path)
        finally:
            os.unlink(path)
            os.rmdir(d)
        self.app = app
        bro.Worker.associations = dict()
        bro.Worker.recv_queues = list()
        wb = self
        for i, cfg in enumerate(app.configs):
            peer = self._ScriptedPeer(self.sim, self.net, PEER_HOST, PEER_REALM, LOCAL_HOST, LOCAL_REALM,
                                      self.phist, name="peer%d" % i)
            peer.listen(("127.0.0.1", 3868 + i))
            self.peers.append(peer)
            self.stubs.append(WireConnection(self, i, peer, None))

        RealDiameter = bro.Diameter
        by_port = {}

        class ObservedDiameter(RealDiameter):
            """The real class; get_message() additionally tells the observer what it returned."""

            def get_message(self):
                m = RealDiameter.get_message(self)
                if m is not None:
                    conn = by_port.get(self.config["PEER_NODE_PORT"])
                    if conn is not None:
                        conn.note_taken(m)
                return m
        for i in range(len(app.configs)):
            by_port[3868 + i] = self.stubs[i]
        bro.Diameter = ObservedDiameter
        return app

    def start(self):
        """Bromelia.run(block=True): returns once every connection is open.  Must be called from a
        simulator thread."""
        import bromelia.bromelia as bro
        self.app.run(block=True)
        seen = []
        for app_id, w in sorted(bro.Worker.associations.items(), key=lambda kv: repr(kv[0])):
            if w not in seen:
                seen.append(w)
        # order workers by connection index
        seen.sort(key=lambda w: w.app.config["PEER_NODE_PORT"])
        self.workers = seen
        for i, w in enumerate(seen):
            self.stubs[i].node = w.app


def draw_full_stack(rng, scn):
    """Turns a world-B scenario into a full-stack (B2) one: network behaviour and connection-layer knobs."""
    scn["full_stack"] = True
    scn["net"] = {"max_latency": rng.choice([0.0005, 0.003, 0.02]),
                  "p_fragment": rng.choice([0.0, 0.3, 0.8]), "max_fragments": rng.choice([2, 4]),
                  "p_partial_write": rng.choice([0.0, 0.2, 0.6]), "p_one_byte_write": rng.choice([0.0, 0.0, 0.05])}
    scn["knobs"].update({"STATE_MACHINE_TICKER": rng.choice([0.001, 0.002, 0.005, 0.01]),
                         "WAITING_CONN_TIMER": rng.choice([0.05, 0.3, 2]),
                         "BROMELIA_LOADING_TICKER": rng.choice([0.02, 0.1]),
                         "TRACKING_SOCKET_EVENTS_TIMEOUT": rng.choice([0.2, 0.5, 1]),
                         "SEND_BUFFER_MAXIMUM_SIZE": rng.choice([4096 * 64, 4096, 1200])})
    scn["horizon"] = scn.get("horizon", 40.0) + 20.0
    scn["max_steps"] = max(scn.get("max_steps", 3_000_000), 8_000_000)
    return scn
