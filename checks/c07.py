# -*- coding: utf-8 -*-
"""
C07 -- Base-protocol answers echo the identifiers of the request they answer.

World A.  Histories of base requests from the peer -- CER (server Closed, and
again in Open), bursts of DWRs coalesced in one segment, DPR -- with
Hop-by-Hop / End-to-End identifiers from boundary values and random ones,
interleaved with application traffic and the node's own sends, across
reconnects of the SAME Diameter object.
"""

import copy
import random

from simkit.driver import Check, base_result
from ref import codec as C
from checks.worlda import (WorldA, bystander_for, bystander_cost, draw_knobs, draw_sched, NODE_HOST, NODE_REALM,
                           PEER_HOST, PEER_REALM)

APP_ID = 16777251
BOUNDARY = [0, 1, 0x7fffffff, 0x80000000, 0xffffffff, 0xfffffffe, 0x00000100, 0x01000000]


def draw_id(rng):
    x = rng.random()
    if x < 0.45:
        return rng.choice(BOUNDARY)
    return rng.getrandbits(32)


def draw_pair(rng, prev):
    x = rng.random()
    if x < 0.15 and prev:
        return list(rng.choice(prev))               # repeated pair
    if x < 0.30:
        v = draw_id(rng)
        return [v, v]                               # equal hbh / e2e
    if x < 0.40 and prev:
        p = rng.choice(prev)
        return [p[1], p[0]]                         # swapped values of an earlier pair
    return [draw_id(rng), draw_id(rng)]


class C07(Check):
    prop = "C07"
    quick_runs = 160
    thorough_runs = 3000
    run_wall = 600.0
    rule = ("one run = 1..3 connections of the same Diameter object (client or server role); per connection a history of "
            "base requests from the peer (CER, bursts of coalesced DWRs, CER in Open, DPR) with boundary / repeated / "
            "swapped / random identifier pairs, interleaved with application traffic in both directions, under a seeded "
            "schedule and segmentation; distinct = distinct schedule signature; non-trivial = at least two base requests "
            "sat in one segment, or a reconnect happened, or a boundary identifier was used")
    components_real = ["BaseMessageProcessor.create_answer / is_valid_*", "State classes (Closed, Open event_open_rcv_dwr/dpr/cer)",
                       "DiameterBaseProxy templates (Diameter._base reused across connections)", "send path and transport"]
    components_stub = ["OS sockets/selectors/threads/clock (simkit)", "remote peer (ref.peer.ScriptedPeer)"]
    assumptions = ["a request that receives no answer is not a C07 violation (the statement constrains emitted answers)",
                   "'emitted' = handed to the transport (written to the socket or present in the transport's send buffers)"]

    def gen_scenario(self, rng, tier, index):
        mode = rng.choice(["CLIENT", "SERVER"])
        nconn = rng.choice([1, 1, 2, 3])
        prev = []
        conns = []
        for ci in range(nconn):
            cer = draw_pair(rng, prev)
            prev.append(tuple(cer))
            steps = []
            for _ in range(rng.randint(1, 5 if tier == "quick" else 10)):
                x = rng.random()
                if x < 0.55:
                    k = rng.choice([1, 1, 2, 3, 5])
                    ids = []
                    for _ in range(k):
                        p = draw_pair(rng, prev)
                        prev.append(tuple(p))
                        ids.append(p)
                    steps.append({"op": "dwr_burst", "ids": ids, "coalesce": rng.random() < 0.7,
                                  "mix_app": rng.random() < 0.4})
                elif x < 0.70:
                    p = draw_pair(rng, prev)
                    prev.append(tuple(p))
                    steps.append({"op": "cer_in_open", "ids": p})
                elif x < 0.80:
                    steps.append({"op": "app_in", "n": rng.choice([1, 2, 4])})
                elif x < 0.90:
                    # a send backlog larger than one batch while base requests arrive back to back: the
                    # answer to the first must not be touched by the second while it still waits
                    ids = []
                    for _ in range(rng.choice([2, 3])):
                        p = draw_pair(rng, prev)
                        prev.append(tuple(p))
                        ids.append(p)
                    steps.append({"op": "backlog_dwr", "n": rng.choice([6, 10, 16]), "pad": rng.choice([200, 700, 1500]),
                                  "ids": ids, "lead": rng.choice([0.0, 0.0005, 0.003])})
                else:
                    steps.append({"op": "node_sends", "n": rng.choice([1, 3])})
                steps[-1]["gap"] = rng.choice([0.0, 0.001, 0.02, 0.2])
            end = rng.choice(["peer_dpr", "peer_dpr", "local_close"])
            dpr = draw_pair(rng, prev)
            prev.append(tuple(dpr))
            conns.append({"cer": cer, "steps": steps, "end": end, "dpr": dpr})
        knobs = draw_knobs(rng)
        knobs["SLEEP_TIMER"] = rng.choice([0.1, 0.3])
        if any(st["op"] == "backlog_dwr" for cn in conns for st in cn["steps"]):
            knobs["SEND_BUFFER_MAXIMUM_SIZE"] = rng.choice([1800, 2400, 4096])
        scn = {"mode": mode, "conns": conns, "sched": draw_sched(rng), "knobs": knobs, "bystander": bystander_for(index, every=4, phase=2),
               "net": {"max_latency": rng.choice([0.0005, 0.003]), "p_fragment": rng.choice([0.0, 0.3]),
                       "p_partial_write": rng.choice([0.0, 0.3])},
               "watchdog": 30, "horizon": 150.0}
        # later additions draw from a generator of their own (the stream above stays what it was)
        rng2 = random.Random(rng.getrandbits(48))
        slow = False
        for cn in conns:
            if rng2.random() < 0.3:
                # an application message whose payload AVP holds the complete encoding of a DWR nobody sent,
                # delivered in two pieces (possibly seconds apart): if the node's framing ever loses its place,
                # the payload is taken for a message and "answered"
                g = rng2.choice([0.0, 0.02, 0.3, 1.3, 2.6])
                cn["steps"].insert(rng2.randrange(len(cn["steps"]) + 1),
                                   {"op": "embedded", "cut": rng2.getrandbits(30), "gap2": g, "gap": rng2.choice([0.0, 0.001, 0.02])})
                slow = slow or g >= 1.0
            if rng2.random() < 0.2:
                # a slow peer: one DWR arrives in two pieces seconds apart
                g = rng2.choice([0.3, 1.3, 2.6, 5.0])
                cn["steps"].insert(rng2.randrange(len(cn["steps"]) + 1),
                                   {"op": "dwr_slow", "ids": [0x51000000 + rng2.getrandbits(20), 0x52000000 + rng2.getrandbits(20)],
                                    "cut": rng2.getrandbits(30), "gap2": g, "gap": rng2.choice([0.0, 0.001, 0.02])})
                slow = slow or g >= 1.0
        if slow:
            knobs["STATE_MACHINE_TICKER"] = max(knobs["STATE_MACHINE_TICKER"], 0.002)
        for cn in conns:
            if cn["end"] == "peer_dpr" and rng2.random() < 0.25:
                # two requests crossing at the end: a DWR and the DPR arrive in ONE segment; both are answered, in order
                cn["dwr_with_dpr"] = [0x53000000 + rng2.getrandbits(20), 0x54000000 + rng2.getrandbits(20)]
        if index % 16 == 13:
            # volume: hundreds of watchdog requests on one connection (counters, name collisions, lists never trimmed)
            nvol = rng2.choice([150, 300, 600])
            conns[:] = conns[:1]
            conns[0]["steps"] = [{"op": "dwr_burst", "ids": [[0x60000000 + i, 0x61000000 + (i * 7919) % 100003] for i in range(k, min(nvol, k + 50))],
                                  "coalesce": (k // 50) % 2 == 0, "mix_app": False, "gap": 0.01} for k in range(0, nvol, 50)]
            knobs["STATE_MACHINE_TICKER"] = max(knobs["STATE_MACHINE_TICKER"], 0.001)
            scn["max_steps"] = 14_000_000
        return scn

    def shrink(self, scn):
        cs = scn["conns"]
        if len(cs) > 1:
            for i in range(len(cs)):
                c = copy.deepcopy(scn)
                del c["conns"][i]
                yield c
        for i, cn in enumerate(cs):
            for j in range(len(cn["steps"])):
                c = copy.deepcopy(scn)
                del c["conns"][i]["steps"][j]
                yield c
            for j, st in enumerate(cn["steps"]):
                if st["op"] in ("dwr_burst", "backlog_dwr") and len(st["ids"]) > 1:
                    c = copy.deepcopy(scn)
                    c["conns"][i]["steps"][j]["ids"].pop()
                    yield c
        for k in ("p_fragment", "p_partial_write"):
            if scn["net"].get(k):
                c = copy.deepcopy(scn)
                c["net"][k] = 0.0
                yield c

    def nontrivial(self, res):
        return res.get("coalesced_base", 0) > 0 or res.get("reconnects", 0) > 0 or res.get("boundary_ids", 0) > 0

    def sample(self, scn, res):
        return {"mode": scn["mode"], "conns": scn["conns"][:2], "sched": scn["sched"], "outcome": res.get("summary")}

    def run(self, scn, tape_in=None):
        w = WorldA(dict(scn, auto_peer_cer=False), tape_in)
        sim = w.sim
        knobs = w.world.knobs
        tick = knobs["STATE_MACHINE_TICKER"]
        D = knobs["SLEEP_TIMER"] + 2 * knobs["TRACKING_SOCKET_EVENTS_TIMEOUT"] + 1.5 + 60 * tick + 300000 * sim.quantum + \
            bystander_cost(scn, sim.quantum)
        violations = []
        stats = {"coalesced_base": 0, "reconnects": 0, "boundary_ids": 0, "answers": 0, "requests": 0,
                 "conns_opened": 0}
        app_rx_log = []     # (step, emitted-bytes snapshot per conn)
        mode = scn["mode"]

        def emitted_len(sock):
            """bytes written + bytes handed to the transport but not yet written"""
            n = len(sock.tx_bytes)
            a = w.node._association
            tr = getattr(a, "transport", None) if a is not None else None
            if tr is not None and getattr(tr, "sock", None) is sock:
                n += len(getattr(tr, "_send_buffer", b"")) + len(getattr(tr, "data_stream", b""))
            return n

        def main(sim):
            from bromelia.base import DiameterRequest
            from bromelia.avps import SessionIdAVP, OriginHostAVP, OriginRealmAVP, DestinationRealmAVP
            hb_counter = [0x60000000]
            for ci, cn in enumerate(scn["conns"]):
                if ci > 0:
                    stats["reconnects"] += 1
                for v in cn["cer"] + cn["dpr"]:
                    if v in BOUNDARY:
                        stats["boundary_ids"] += 1
                # the CER of this connection (server role: sent by the peer once connected)
                if mode == "SERVER":
                    def on_conn(peer, cn=cn):
                        peer.send(C.cer(PEER_HOST, PEER_REALM, hbh=cn["cer"][0], e2e=cn["cer"][1]))
                    w._peer_connected = on_conn
                w.maybe_bystander()
                w.start_node()
                if not w.wait_state(("I-Open", "R-Open"), 20.0):
                    return
                stats["conns_opened"] += 1
                data_sock = w.peer.sock.peer
                cons = w.start_consumer("consumer%d" % ci)
                for st in cn["steps"]:
                    if st["gap"]:
                        sim.sleep(st["gap"])
                    op = st["op"]
                    if op == "dwr_burst":
                        msgs = []
                        for (h, e) in st["ids"]:
                            if h in BOUNDARY or e in BOUNDARY:
                                stats["boundary_ids"] += 1
                            msgs.append(C.dwr(PEER_HOST, PEER_REALM, hbh=h, e2e=e))
                            if st["mix_app"]:
                                hb_counter[0] += 1
                                msgs.append(C.app_request(APP_ID, 316, hb_counter[0], hb_counter[0], "p;7;%d" % hb_counter[0],
                                                          PEER_HOST, PEER_REALM, NODE_REALM))
                        if st["coalesce"]:
                            if len(st["ids"]) > 1:
                                stats["coalesced_base"] += 1
                            w.peer.send_stream(msgs)
                        else:
                            for m in msgs:
                                w.peer.send(m)
                    elif op == "cer_in_open":
                        w.peer.send(C.cer(PEER_HOST, PEER_REALM, hbh=st["ids"][0], e2e=st["ids"][1]))
                    elif op == "app_in":
                        for _ in range(st["n"]):
                            hb_counter[0] += 1
                            w.peer.send(C.app_request(APP_ID, 316, hb_counter[0], hb_counter[0], "p;7;%d" % hb_counter[0],
                                                      PEER_HOST, PEER_REALM, NODE_REALM))
                    elif op in ("embedded", "dwr_slow"):
                        if op == "embedded":
                            hb_counter[0] += 1
                            ghost = C.enc_msg(C.dwr(PEER_HOST, PEER_REALM, hbh=0xDEADBE00 + (hb_counter[0] & 0xFF), e2e=0xFEEDFA00 + (hb_counter[0] & 0xFF)))
                            m = C.app_request(APP_ID, 316, hb_counter[0], hb_counter[0], "p;8;%d" % hb_counter[0],
                                              PEER_HOST, PEER_REALM, NODE_REALM, extra=[(99997, 0, None, ghost)])
                        else:
                            m = C.dwr(PEER_HOST, PEER_REALM, hbh=st["ids"][0], e2e=st["ids"][1])
                        enc = C.enc_msg(m)
                        cut = 1 + st["cut"] % (len(enc) - 1)
                        if op == "embedded" and st["cut"] % 2 == 0:
                            # the second piece begins exactly where the embedded encoding begins
                            cut = enc.find(ghost)
                        lat = w.net.cfg.min_latency
                        w.peer.send(m, cuts=[cut], delays=[lat, lat + st["gap2"]])
                        stats["slow_pieces"] = stats.get("slow_pieces", 0) + (1 if st["gap2"] >= 1.0 else 0)
                        sim.sleep(st["gap2"] + 0.01)
                    elif op == "backlog_dwr":
                        from bromelia.base import DiameterAVP

                        def flood(n=st["n"], pad=st["pad"]):
                            msgs = [DiameterRequest(application_id=APP_ID, command_code=316, avps=[
                                SessionIdAVP(("n;4;%d" % i).encode()), OriginHostAVP(NODE_HOST),
                                OriginRealmAVP(NODE_REALM), DestinationRealmAVP(PEER_REALM),
                                DiameterAVP(code=99998, data=bytes(pad))]) for i in range(n)]
                            w.node.send_messages(msgs)
                        w.call("flooder", flood)
                        if st["lead"]:
                            sim.sleep(st["lead"])
                        if len(st["ids"]) > 1:
                            stats["coalesced_base"] += 1
                        w.peer.send_stream([C.dwr(PEER_HOST, PEER_REALM, hbh=h, e2e=e) for (h, e) in st["ids"]])
                    elif op == "node_sends":
                        def submit(n=st["n"]):
                            for i in range(n):
                                w.node.send_message(DiameterRequest(application_id=APP_ID, command_code=316, avps=[
                                    SessionIdAVP(("n;3;%d" % i).encode()), OriginHostAVP(NODE_HOST),
                                    OriginRealmAVP(NODE_REALM), DestinationRealmAVP(PEER_REALM)]))
                        w.call("submitter", submit)
                # let the node work through what was sent
                nreq = sum(len(s["ids"]) if s["op"] in ("dwr_burst", "backlog_dwr") else 1 for s in cn["steps"]) + \
                    sum(s["n"] for s in cn["steps"] if s["op"] == "backlog_dwr")
                sim.sleep(0.05 + 3 * tick * (nreq + 4))
                if cn["end"] == "peer_dpr" and cn.get("dwr_with_dpr"):
                    w.peer.send_stream([C.dwr(PEER_HOST, PEER_REALM, hbh=cn["dwr_with_dpr"][0], e2e=cn["dwr_with_dpr"][1]),
                                        C.dpr(PEER_HOST, PEER_REALM, hbh=cn["dpr"][0], e2e=cn["dpr"][1])])
                elif cn["end"] == "peer_dpr":
                    w.peer.send(C.dpr(PEER_HOST, PEER_REALM, hbh=cn["dpr"][0], e2e=cn["dpr"][1]))
                else:
                    w.call("close", w.node.close)

                def released():
                    return w.state() == "Closed" and all(t.state == "done" for t in w.lib_threads()) and \
                        all(s.state == "closed" for s in w.node_socks())
                if not sim.wait_until(released, D + 2 * tick * nreq, poll=0.02):
                    stats["not_released"] = True
                    return

        # record what had been emitted at every application delivery
        orig_add = w.hist.add

        def add(kind, **kw):
            ev = orig_add(kind, **kw)
            if kind == "app_rx" and w.peer.sock is not None and w.peer.sock.peer is not None:
                ev["emitted"] = emitted_len(w.peer.sock.peer)
                ev["conn"] = w.peer.conn_index
            return ev
        w.hist.add = add
        sim.run_main(main)

        # ---------------- oracle over the recorded history ----------------
        for ci, psock in enumerate(w.peer.socks):
            nsock = psock.peer
            fr = C.Framer()
            out = fr.feed(bytes(nsock.tx_bytes))
            # requests the peer sent on this connection, in order, with their history seq
            reqs = [e for e in w.hist.events if e["kind"] == "peer_tx" and e.get("conn") == ci and
                    e["msg"]["code"] in (C.CE, C.DW, C.DP) and C.is_request(e["msg"])]
            stats["requests"] += len(reqs)
            matched = set()
            last_req_idx = -1
            for m in out:
                if m["code"] not in (C.CE, C.DW, C.DP) or C.is_request(m):
                    continue
                stats["answers"] += 1
                name = {C.CE: "CEA", C.DW: "DWA", C.DP: "DPA"}[m["code"]]
                ctx = "%s/conn%d" % (name, min(ci, 1))
                if m["flags"] & C.F_R:
                    violations.append({"clause": "answer has the R flag clear", "sig": "C07/r-flag/" + name,
                                       "detail": {"conn": ci, "answer": C.summary(m)}})
                    continue
                if C.find(m, C.RESULT_CODE) is None:
                    violations.append({"clause": "answer carries a Result-Code", "sig": "C07/no-result-code/" + name,
                                       "detail": {"conn": ci, "answer": C.summary(m)}})
                oh, orl = C.find(m, C.ORIGIN_HOST), C.find(m, C.ORIGIN_REALM)
                if oh is None or orl is None or oh[3] != NODE_HOST.encode() or orl[3] != NODE_REALM.encode():
                    violations.append({"clause": "answer carries the local Origin-Host and Origin-Realm", "sig": "C07/origin/" + name,
                                       "detail": {"conn": ci, "answer": C.summary(m)}})
                # exactly one earlier, not yet matched request with the same code and identifiers
                cand = [i for i, e in enumerate(reqs) if i not in matched and e["msg"]["code"] == m["code"] and
                        e["msg"]["hbh"] == m["hbh"] and e["msg"]["e2e"] == m["e2e"]]
                if not cand:
                    anyc = [i for i, e in enumerate(reqs) if e["msg"]["code"] == m["code"] and
                            e["msg"]["hbh"] == m["hbh"] and e["msg"]["e2e"] == m["e2e"]]
                    stale_prev = any(e["kind"] == "peer_tx" and e.get("conn", 0) < ci and e["msg"]["code"] == m["code"] and
                                     e["msg"]["hbh"] == m["hbh"] and e["msg"]["e2e"] == m["e2e"] for e in w.hist.events)
                    kind = "duplicate-answer" if anyc else ("stale-identifiers-from-earlier-connection" if stale_prev else "unmatched-identifiers")
                    violations.append({"clause": "every emitted answer matches exactly one received request (same code, Hop-by-Hop, End-to-End)",
                                       "sig": "C07/%s/%s" % (kind, name),
                                       "detail": {"conn": ci, "answer": {"hbh": "%08x" % m["hbh"], "e2e": "%08x" % m["e2e"]},
                                                  "requests_of_that_code": [("%08x" % e["msg"]["hbh"], "%08x" % e["msg"]["e2e"])
                                                                            for e in reqs if e["msg"]["code"] == m["code"]][:12]}})
                    continue
                i = cand[0]
                matched.add(i)
                # answers come out in the order the requests were sent
                if i < last_req_idx:
                    violations.append({"clause": "an answer is emitted before any later inbound message is processed",
                                       "sig": "C07/answers-out-of-order/" + name,
                                       "detail": {"conn": ci, "request_index": i, "after_request_index": last_req_idx}})
                last_req_idx = max(last_req_idx, i)
                # emitted before any application message the peer sent later was delivered
                end_off = m["offset"] + len(m["raw"])
                req_seq = reqs[i]["seq"]
                later_app_tags = set()
                for e in w.hist.events:
                    if e["kind"] == "peer_tx" and e.get("conn") == ci and e["seq"] > req_seq and \
                            e["msg"]["code"] not in (C.CE, C.DW, C.DP):
                        later_app_tags.add(e["msg"]["hbh"])
                for e in w.hist.events:
                    if e["kind"] == "app_rx" and e.get("conn") == ci and e.get("raw") and "emitted" in e:
                        hb = int.from_bytes(e["raw"][12:16], "big")
                        if hb in later_app_tags and e["emitted"] < end_off:
                            violations.append({"clause": "an answer is emitted before any later inbound message is processed",
                                               "sig": "C07/answer-after-later-delivery/" + name,
                                               "detail": {"conn": ci, "answer_end_offset": end_off, "emitted_at_delivery": e["emitted"],
                                                          "delivered_hbh": "%08x" % hb}})
                            break
            if fr.broken:
                # torn output is C05's business; do not judge C07 on it
                pass
        sigs = set()
        uniq = []
        for v in violations:
            if v["sig"] not in sigs:
                sigs.add(v["sig"])
                uniq.append(v)
        return base_result(sim, uniq, summary=dict(stats),
                           extra={"abstract_states": sorted(w.abstract_states), "coalesced_base": stats["coalesced_base"], "reconnects": stats["reconnects"],
                                  "boundary_ids": stats["boundary_ids"],
                                  "faults": {"coalesced_base_requests": stats["coalesced_base"], "reconnect": stats["reconnects"],
                                             "boundary_identifier": stats["boundary_ids"],
                                             "fragmented_segments": w.net.stats["fragmented"],
                                             "partial_write": w.net.stats["partial_writes"],
                                             "preemption_in_bromelia_code": sim.preempt_line + sim.preempt_opcode}})


CHECK = C07()
