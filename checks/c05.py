# -*- coding: utf-8 -*-
"""
C05 -- Submitted messages are written to the socket exactly once, whole and in
order.

World A.  k application threads submit uniquely tagged messages through
send_message / send_messages while SimSocket.send accepts seeded prefixes
(down to one byte), writability is sometimes withheld, the peer sends DWRs /
application messages so that READ readiness races with pending writes, and the
send-buffer knob is sometimes small so that a message does not fit the batch.
"""

import copy
import random

from simkit.driver import Check, base_result
from ref import codec as C
from checks.worlda import (WorldA, draw_clock_jumps, schedule_clock_jumps, bystander_for, bystander_cost, draw_knobs, draw_sched, draw_stalls, draw_func_stalls, install_func_stalls, NODE_HOST, NODE_REALM,
                           PEER_HOST, PEER_REALM)

TAG = 99999
APP_ID = 16777251


class C05(Check):
    prop = "C05"
    quick_runs = 192
    thorough_runs = 3000
    run_wall = 600.0
    rule = ("one run = a live node brought to Open, then 1..4 application threads submitting <= 12 uniquely tagged "
            "messages each through send_message/send_messages, under a seeded schedule, with seeded partial writes "
            "(incl. one byte at a time), withheld writability, concurrent inbound DWR/application traffic and a "
            "per-run send-buffer limit; distinct = distinct schedule signature; non-trivial = at least one partial "
            "write, or inbound data while output was pending, or the batch limit was hit, or >= 2 submitters")
    components_real = ["Diameter.send_message(s)", "DiameterAssociation (put_message_into_send_queue, send_message_from_queue)",
                       "PeerStateMachine Open.run/event_send_message", "TcpConnection (_set_selector_events_mask, _run, write/_write, read)"]
    components_stub = ["OS sockets/selectors/threads/clock (simkit)", "remote peer (ref.peer.ScriptedPeer)"]
    assumptions = [
                   "send() never raises EAGAIN after the selector reported writability",
                   "liveness bound D after the last submission and the last fault"]

    def gen_scenario(self, rng, tier, index):
        k = rng.choice([1, 1, 2, 3, 4])
        subs = []
        for t in range(k):
            n = rng.randint(1, 6 if tier == "quick" else 12)
            ops = []
            i = 0
            while i < n:
                g = rng.choice([1, 1, 1, 2, 4])
                g = min(g, n - i)
                ops.append({"n": g, "pads": [rng.choice([0, 0, 1, 2, 3, 40, 300, 300, 3000]) for _ in range(g)],
                            # submit the very same message object again right away (a retransmission):
                            # it must be written twice
                            "again": rng.random() < 0.15,
                            "kinds": [rng.choice(["req", "req", "ans"]) for _ in range(g)],
                            "wait": rng.choice([0.0, 0.0, 0.0005, 0.004, 0.03, 0.2])})
                i += g
            subs.append({"start": rng.choice([0.0, 0.0, 0.002, 0.05]), "ops": ops})
        inbound = []
        for _ in range(rng.choice([0, 0, 1, 3, 8])):
            inbound.append({"t": rng.choice([0.0, 0.001, 0.004, 0.01, 0.05, 0.2]) + rng.random() * 0.01,
                            "kind": rng.choice(["dwr", "dwr", "app_req", "app_ans"])})
        knobs = draw_knobs(rng)
        knobs["SEND_BUFFER_MAXIMUM_SIZE"] = rng.choice([4096 * 64, 4096 * 64, 2000, 900, 700])
        net = {"p_partial_write": rng.choice([0.0, 0.0, 0.3, 0.8]),
               "p_one_byte_write": rng.choice([0.0, 0.0, 0.0, 0.05, 0.3]),
               "max_latency": rng.choice([0.0005, 0.003])}
        stalls = [{"t": rng.choice([0.0, 0.003, 0.02]), "dur": rng.choice([0.002, 0.02, 0.2])}
                  for _ in range(rng.choice([0, 0, 0, 1, 2]))]
        func_stalls = draw_func_stalls(rng)
        if index % 4 == 3:
            # race sweep: two busy submitters on the shipped 0.1 ms tick, and one stalled-thread fault whose
            # placement (function, k-th call, step after entry) is enumerated by the run index
            j = index // 4
            funcs = ["TcpConnection.write", "TcpConnection._set_selector_events_mask",
                     "DiameterAssociation.send_message_from_queue", "TcpConnection._write"]
            func_stalls = [{"func": funcs[j % 4], "call": 1 + (j // 4) % 4, "line": (j // 16) % 14, "dur": 0.02}]
            subs = [{"start": 0.0, "ops": [{"n": 1, "pads": [40], "kinds": ["req"], "wait": w} for _ in range(8)]}
                    for w in (0.0, 0.0002)]
            knobs["STATE_MACHINE_TICKER"] = 0.0001
            knobs["SEND_BUFFER_MAXIMUM_SIZE"] = 4096 * 64
            net["p_partial_write"] = 0.5
            stalls = []
            inbound = inbound[:1]
        if index % 4 == 1:
            # tail burst: the very last submission is one send_messages() call whose total exceeds the
            # send-buffer limit, and nothing (no submission, no inbound traffic) follows it
            limit = rng.choice([900, 1500, 2400])
            knobs["SEND_BUFFER_MAXIMUM_SIZE"] = limit
            m = rng.choice([3, 4, 6, 9])
            pads = [rng.choice([100, 250, 400]) for _ in range(m)]
            subs = subs[:1]
            subs[0]["ops"] = subs[0]["ops"][:rng.choice([0, 1, 2])] + [
                {"n": m, "pads": pads, "kinds": ["req"] * m, "wait": 0.0}]
            inbound = []
            stalls = []
        scn = {"mode": rng.choice(["CLIENT", "SERVER"]), "subs": subs, "inbound": inbound,
               "write_stalls": stalls, "thread_stalls": draw_stalls(rng, span=600),
               "func_stalls": func_stalls, "bystander": bystander_for(index),
               "sched": draw_sched(rng), "knobs": knobs, "net": net,
               "watchdog": 30, "horizon": 120.0}
        # later additions draw from a generator of their own (the stream above stays what it was)
        rng2 = random.Random(rng.getrandbits(48))
        scn["clock_jumps"] = draw_clock_jumps(rng2, span=0.25)
        for sub in scn["subs"]:
            # the application keeps ONE list as its outbox: fills it, hands it to send_messages(), clears it
            sub["reuse_list"] = rng2.random() < 0.35
        if index % 4 not in (1, 3) and rng2.random() < 0.3:
            # size boundaries: a message exactly 2^k (+- 4) bytes long, or exactly the send-batch limit (+- 4)
            lim = scn["knobs"]["SEND_BUFFER_MAXIMUM_SIZE"]
            op = rng2.choice(rng2.choice(scn["subs"])["ops"])
            op["targets"] = [None] * op["n"]
            op["targets"][rng2.randrange(op["n"])] = rng2.choice(
                [252, 256, 260, 1024, 4096, 65532, 65536, 65540] + ([lim - 4, lim, lim + 4, 2 * lim] if lim <= 65536 else [lim]))
        return scn

    def shrink(self, scn):
        subs = scn["subs"]
        if len(subs) > 1:
            for i in range(len(subs)):
                c = copy.deepcopy(scn)
                del c["subs"][i]
                yield c
        for i, s in enumerate(subs):
            if len(s["ops"]) > 1:
                for j in range(len(s["ops"])):
                    c = copy.deepcopy(scn)
                    del c["subs"][i]["ops"][j]
                    yield c
            for j, op in enumerate(s["ops"]):
                if op["n"] > 1:
                    c = copy.deepcopy(scn)
                    o = c["subs"][i]["ops"][j]
                    o["n"] -= 1
                    o["pads"].pop()
                    o["kinds"].pop()
                    yield c
                if any(op["pads"]):
                    c = copy.deepcopy(scn)
                    c["subs"][i]["ops"][j]["pads"] = [0] * op["n"]
                    yield c
        if scn["inbound"]:
            c = copy.deepcopy(scn)
            c["inbound"] = []
            yield c
            for i in range(len(scn["inbound"])):
                c = copy.deepcopy(scn)
                del c["inbound"][i]
                yield c
        if scn["write_stalls"]:
            c = copy.deepcopy(scn)
            c["write_stalls"] = []
            yield c
        for key in ("thread_stalls", "func_stalls"):
            for i in range(len(scn.get(key, []))):
                c = copy.deepcopy(scn)
                del c[key][i]
                yield c
        for key in ("p_partial_write", "p_one_byte_write"):
            if scn["net"].get(key):
                c = copy.deepcopy(scn)
                c["net"][key] = 0.0
                yield c
        if scn["knobs"].get("SEND_BUFFER_MAXIMUM_SIZE", 262144) != 262144:
            c = copy.deepcopy(scn)
            c["knobs"]["SEND_BUFFER_MAXIMUM_SIZE"] = 262144
            yield c

    def nontrivial(self, res):
        f = res.get("faults", {})
        return f.get("partial_write", 0) > 0 or f.get("inbound_while_output_pending", 0) > 0 or f.get("thread_stall", 0) > 0 or \
            f.get("batch_limit_hit", 0) > 0 or res.get("submitters", 0) >= 2

    def sample(self, scn, res):
        return {"mode": scn["mode"], "subs": scn["subs"], "inbound": scn["inbound"], "net": scn["net"],
                "knobs": scn["knobs"], "sched": scn["sched"], "outcome": res.get("summary")}

    def run(self, scn, tape_in=None):
        w = WorldA(scn, tape_in)
        sim = w.sim
        violations = []
        knobs = w.world.knobs
        tick = knobs["STATE_MACHINE_TICKER"]
        limit = knobs["SEND_BUFFER_MAXIMUM_SIZE"]
        submitted = []      # (submitter, seq within submitter, raw bytes, tag)
        stats = {"opened": False, "submitted": 0, "batch_limit_hit": 0, "inbound_while_pending": 0}
        nmsgs = sum(op["n"] for s in scn["subs"] for op in s["ops"])
        D = 3.0 + 6 * nmsgs * tick + 2 * knobs["TRACKING_SOCKET_EVENTS_TIMEOUT"] + \
            nmsgs * 30000 * sim.quantum + sum(s["dur"] for s in scn["write_stalls"]) + \
            sum(s["dur"] for s in scn.get("thread_stalls", [])) + sum(s["dur"] for s in scn.get("func_stalls", [])) + \
            bystander_cost(scn, sim.quantum)

        def main(sim):
            from bromelia.base import DiameterRequest, DiameterAnswer, DiameterAVP
            from bromelia.avps import SessionIdAVP, OriginHostAVP, OriginRealmAVP, DestinationRealmAVP, ResultCodeAVP
            w.maybe_bystander()
            w.start_node()
            if not w.wait_state(("I-Open", "R-Open"), 20.0):
                return
            stats["opened"] = True
            w.start_consumer()
            sim.sleep(0.02)
            data_sock = w.peer.sock.peer
            tx0 = len(data_sock.tx_bytes)
            stats["tx0"] = tx0

            # probe: inbound data delivered while output is pending
            def on_sel(sel, ready):
                pass

            def make(si, seq, kind, pad, target=None):
                if target:
                    base_len = len(make(si, seq, kind, 0)[0].dump())
                    pad = max(1, target - base_len - 8)
                tag = ("s%d-%03d" % (si, seq)).encode()
                avps = [SessionIdAVP(("node;%d;%d" % (si, seq)).encode()), OriginHostAVP(NODE_HOST),
                        OriginRealmAVP(NODE_REALM)]
                if kind == "req":
                    avps.append(DestinationRealmAVP(PEER_REALM))
                else:
                    avps.append(ResultCodeAVP(2001))
                avps.append(DiameterAVP(code=TAG, data=tag))
                if pad:
                    avps.append(DiameterAVP(code=TAG + 1, data=bytes((seq + i) & 0xFF for i in range(pad))))
                if kind == "req":
                    m = DiameterRequest(application_id=APP_ID, command_code=316, avps=avps)
                else:
                    m = DiameterAnswer(application_id=APP_ID, command_code=316, avps=avps)
                return m, tag

            def submitter(si, spec):
                if spec["start"]:
                    sim.sleep(spec["start"])
                seq = 0
                outbox = []
                for op in spec["ops"]:
                    batch = outbox if spec.get("reuse_list") else []
                    for j in range(op["n"]):
                        m, tag = make(si, seq, op["kinds"][j], op["pads"][j], (op.get("targets") or [None] * op["n"])[j])
                        raw = m.dump()
                        batch.append(m)
                        submitted.append({"sub": si, "seq": seq, "raw": raw, "tag": tag, "t": sim.now, "count": 1})
                        seq += 1
                    if op.get("again") and batch:
                        batch.append(batch[-1])
                        submitted[-1]["count"] = 2
                    if len(batch) == 1:
                        w.node.send_message(batch[0])
                    elif batch:
                        w.node.send_messages(batch)
                    stats["submitted"] += len(batch)
                    if spec.get("reuse_list"):
                        # the list is the caller's: emptying it after the call has returned must not matter
                        outbox.clear()
                        stats["list_reused"] = stats.get("list_reused", 0) + 1
                    if op["wait"]:
                        sim.sleep(op["wait"])
                return True

            stats["thread_stalls"] = w.apply_stalls(scn.get("thread_stalls"))
            # function-entry anchored stalls count calls from here on
            sim.func_calls.clear()
            install_func_stalls(sim, scn.get("func_stalls"))
            recs = [w.call("submitter%d" % si, submitter, si, spec) for si, spec in enumerate(scn["subs"])]
            t0 = sim.now
            schedule_clock_jumps(sim, scn.get("clock_jumps"))
            for k, ib in enumerate(scn["inbound"]):
                def go(k=k, ib=ib):
                    hb = 0x41000000 + k
                    if ib["kind"] == "dwr":
                        m = C.dwr(PEER_HOST, PEER_REALM, hbh=hb, e2e=hb)
                    elif ib["kind"] == "app_req":
                        m = C.app_request(APP_ID, 316, hb, hb, "peer;2;%d" % k, PEER_HOST, PEER_REALM, NODE_REALM)
                    else:
                        m = C.app_answer(APP_ID, 316, hb, hb, "peer;2;%d" % k, PEER_HOST, PEER_REALM)
                    if len(data_sock.tx_bytes) and w.node._association is not None and \
                            w.node._association.transport is not None and \
                            (w.node._association.transport._send_buffer or len(w.node._association._send_messages.queue)):
                        stats["inbound_while_pending"] += 1
                    w.peer.send(m)
                sim.at(t0 + ib["t"], go)
            for st in scn["write_stalls"]:
                sim.at(t0 + st["t"], lambda st=st: w.net.stall_writes(data_sock, st["dur"]))
            last_fault = t0 + max([ib["t"] for ib in scn["inbound"]] + [st["t"] + st["dur"] for st in scn["write_stalls"]] + [0.0])
            # wait for submitters to finish
            sim.wait_until(lambda: all(r["t1"] is not None for r in recs), 60.0, poll=0.02)
            stats["submitters_done"] = all(r["t1"] is not None for r in recs)
            t_last = max(sim.now, last_fault)
            sim.wait_until(lambda: False, max(0.0, t_last - sim.now))
            want = sum(len(s["raw"]) for s in submitted)

            def all_written():
                fr = C.Framer()
                msgs = fr.feed(bytes(data_sock.tx_bytes[tx0:]))
                tags = 0
                for m in msgs:
                    if C.find(m, TAG) is not None:
                        tags += 1
                return tags >= sum(s_["count"] for s_ in submitted)
            sim.wait_until(all_written, D, poll=D / 40.0)
            sim.sleep(min(1.0, 30 * tick + 0.1))

            def stream_settled():
                # a message the node is still in the middle of writing (its own DWA behind a partial write,
                # a stalled transport thread) is not a torn one: judge the stream once no write is in progress
                fr_ = C.Framer()
                fr_.feed(bytes(data_sock.tx_bytes[tx0:]))
                return bool(fr_.broken) or not fr_.buf
            if not stream_settled():
                sim.probe("verdict_waited_for_write_in_progress")
                sim.wait_until(stream_settled, D, poll=D / 40.0)
            stats["data_sock"] = data_sock

        sim.run_main(main)
        if sim.halt_reason in ("max_steps", "horizon"):
            return base_result(sim, [], summary={"note": "budget exhausted before the verdict: inconclusive"},
                               extra={"faults": {"inconclusive_budget_exhausted": 1}, "submitters": 0})
        if not stats["opened"]:
            return base_result(sim, [], summary={"note": "node did not open"}, extra={"faults": {}, "submitters": 0})
        data_sock = stats.pop("data_sock", None)
        tx0 = stats.get("tx0", 0)
        stream = bytes(data_sock.tx_bytes[tx0:]) if data_sock else b""
        fr = C.Framer()
        msgs = fr.feed(stream)
        pw = w.net.stats["partial_writes"]
        trig = []
        if pw:
            trig.append("partial-write")
        if scn["inbound"]:
            trig.append("inbound")
        if any(len(s["raw"]) > 0 for s in submitted) and limit < 4096 * 64:
            trig.append("small-buffer")
        if len(scn["subs"]) > 1:
            trig.append("multi-submitter")
        trig = "+".join(trig) or "plain"
        for r in w.api_calls:
            if r["role"].startswith("submitter") and r["ok"] is False:
                violations.append({"clause": "submission accepted on an open connection", "sig": "C05/submit-raised/" + r["exc"].split(":")[0],
                                   "detail": {"role": r["role"], "exc": r["exc"]}})
        if fr.broken or fr.buf:
            violations.append({"clause": "bytes written are a concatenation of whole messages (none torn or interleaved)",
                               "sig": "C05/torn",
                               "detail": {"why": fr.broken or "trailing partial message (%d bytes)" % len(fr.buf),
                                          "stream_len": len(stream), "parsed_msgs": len(msgs)}})
        written = []
        for m in msgs:
            t = C.find(m, TAG)
            if t is not None:
                written.append((t[3], m["raw"]))
        sub_by_tag = {s["tag"]: s for s in submitted}
        seen = {}
        for tag, raw in written:
            seen[tag] = seen.get(tag, 0) + 1
        dups = sorted(t for t, c in seen.items() if t in sub_by_tag and c > sub_by_tag[t]["count"])
        lost = sorted(t for t in sub_by_tag if seen.get(t, 0) < sub_by_tag[t]["count"])
        if dups and not violations:
            violations.append({"clause": "no submitted message is written twice", "sig": "C05/duplicated",
                               "detail": {"trigger": trig, "tags": [t.decode() for t in dups[:6]], "written": len(written), "submitted": len(submitted)}})
        if lost and not violations:
            dead = [(t.role, "%s: %s" % (type(e).__name__, str(e)[:100])) for t, e in sim.thread_exceptions]
            violations.append({"clause": "every submitted message is written (within D after the last submission and fault)",
                               "sig": "C05/lost",
                               "detail": {"trigger": trig, "tags": [t.decode() for t in lost[:6]], "written": len(written), "submitted": len(submitted),
                                          "state": w.state(), "thread_exceptions": dead[:3], "D": D,
                                          "threads": [(t.role, t.state, repr(t.wait_on)) for t in sim.threads if t.library]}})
        if not violations:
            for tag, raw in written:
                if raw != sub_by_tag[tag]["raw"]:
                    violations.append({"clause": "written bytes equal dump() at submission", "sig": "C05/altered",
                                       "detail": {"tag": tag.decode()}})
                    break
            # per-submitter order
            order = {}
            for tag, raw in written:
                s = sub_by_tag[tag]
                prev = order.get(s["sub"], -1)
                if s["seq"] < prev:
                    violations.append({"clause": "each submitter's messages appear in its submission order",
                                       "sig": "C05/reordered",
                                       "detail": {"trigger": trig, "submitter": s["sub"], "seq": s["seq"], "after": prev,
                                                  "written_order": [t.decode() for t, _ in written][:24]}})
                    break
                order[s["sub"]] = s["seq"]
        faults = {"partial_write": pw, "one_byte_write": w.net.stats["one_byte_writes"],
                  "write_stall": w.net.stats["write_stalls"], "thread_stall": sim.stalls_fired,
                  "inbound_messages": len(scn["inbound"]),
                  "inbound_while_output_pending": stats["inbound_while_pending"],
                  "batch_limit_hit": 1 if (limit < 4096 * 64 and sum(len(s["raw"]) for s in submitted) > limit) else 0,
                  "preemption_in_bromelia_code": sim.preempt_line + sim.preempt_opcode}
        return base_result(sim, violations,
                           summary={"submitted": len(submitted), "written": len(written), "trigger": trig,
                                    "stream_bytes": len(stream)},
                           extra={"abstract_states": sorted(w.abstract_states), "faults": faults, "submitters": len(scn["subs"])})


CHECK = C05()
