# -*- coding: utf-8 -*-
"""
C06 -- The peer state machine follows RFC 6733 and opens only for the
configured peer.

World A.  Event histories over the property's alphabet (valid / identity-
invalid / in-between CER, CEA, DWR, DWA, DPR, DPA; application request /
answer; misaddressed request; connect ack / nack; local stop; restart; peer
disconnect; idle beyond the watchdog) for client and server roles and 0..2
configured applications.  Sequential mode compares the reported state and the
wire after every event with ref/psm_model.py; concurrent mode injects events
at arbitrary times and checks the hard clauses only.
"""

import copy
import random

from simkit.driver import Check, base_result
from ref import codec as C
from ref import psm_model as M
from checks.worlda import (WorldA, draw_knobs, draw_sched, NODE_HOST, NODE_REALM,
                           PEER_HOST, PEER_REALM)

APP_ID = 16777251
TAG = 99999
APPS_CFG = [
    [],
    [{"vendor_id": (10415).to_bytes(4, "big"), "app_id": (16777251).to_bytes(4, "big")}],
    [{"vendor_id": (10415).to_bytes(4, "big"), "app_id": (16777251).to_bytes(4, "big")},
     {"vendor_id": (10415).to_bytes(4, "big"), "app_id": (16777264).to_bytes(4, "big")}],
]


def make_message(ev, n):
    """event name -> reference message (ids unique per n)."""
    hb, ee = 0x51000000 + n, 0x52000000 + n
    bad_host, bad_realm = "intruder." + PEER_REALM, "elsewhere.example"
    if ev == "cer_valid":
        return C.cer(PEER_HOST, PEER_REALM, hbh=hb, e2e=ee)
    if ev == "cer_bad_host":
        return C.cer(bad_host, PEER_REALM, hbh=hb, e2e=ee)
    if ev == "cer_bad_realm":
        return C.cer(PEER_HOST, bad_realm, hbh=hb, e2e=ee)
    if ev == "cer_odd":
        return C.cer(PEER_HOST, PEER_REALM, hbh=hb, e2e=ee,
                     extra=[(C.HOST_IP_ADDRESS, C.AF_M, None, C.ip_data("10.0.0.9"))])
    dup_ip = [(C.HOST_IP_ADDRESS, C.AF_M, None, C.ip_data("10.0.0.9"))]
    if ev == "cer_bad_host_dup":
        # wrong Origin-Host, but the number of recognised AVPs is right again
        return C.cer(bad_host, PEER_REALM, hbh=hb, e2e=ee, extra=dup_ip)
    if ev == "cer_no_host_dup":
        m = C.cer(PEER_HOST, PEER_REALM, hbh=hb, e2e=ee, extra=[(C.PRODUCT_NAME, 0, None, b"again")])
        m["avps"] = [a for a in m["avps"] if a[0] != C.ORIGIN_HOST]
        return m
    if ev == "cea_bad_host_dup":
        return C.cea(bad_host, PEER_REALM, hbh=hb, e2e=ee, extra=dup_ip)
    if ev == "cea_bad_realm_dup":
        return C.cea(PEER_HOST, bad_realm, hbh=hb, e2e=ee, extra=[(C.VENDOR_ID, C.AF_M, None, C.u32(0))])
    if ev == "cea_valid":
        return C.cea(PEER_HOST, PEER_REALM, hbh=hb, e2e=ee)
    if ev == "cea_bad_host":
        return C.cea(bad_host, PEER_REALM, hbh=hb, e2e=ee)
    if ev == "cea_bad_realm":
        return C.cea(PEER_HOST, bad_realm, hbh=hb, e2e=ee)
    if ev == "cea_odd":
        return C.cea(PEER_HOST, PEER_REALM, hbh=hb, e2e=ee, result=5010)
    if ev == "dwr_valid":
        return C.dwr(PEER_HOST, PEER_REALM, hbh=hb, e2e=ee)
    if ev == "dwr_bad_host":
        return C.dwr(bad_host, PEER_REALM, hbh=hb, e2e=ee)
    if ev == "dwa_valid":
        return C.dwa(PEER_HOST, PEER_REALM, hbh=hb, e2e=ee)
    if ev == "dwa_bad_host":
        return C.dwa(bad_host, PEER_REALM, hbh=hb, e2e=ee)
    if ev == "dpr_valid":
        return C.dpr(PEER_HOST, PEER_REALM, hbh=hb, e2e=ee)
    if ev == "dpr_bad_host":
        return C.dpr(bad_host, PEER_REALM, hbh=hb, e2e=ee)
    if ev == "dpr_other_cause":
        return C.dpr(PEER_HOST, PEER_REALM, hbh=hb, e2e=ee, cause=2)
    if ev == "dpa_valid":
        return C.dpa(PEER_HOST, PEER_REALM, hbh=hb, e2e=ee)
    if ev == "dpa_bad_host":
        return C.dpa(bad_host, PEER_REALM, hbh=hb, e2e=ee)
    tag = [(TAG, 0, None, ("e%04d" % n).encode())]
    if ev == "app_req":
        return C.app_request(APP_ID, 316, hb, ee, "p;6;%d" % n, PEER_HOST, PEER_REALM, NODE_REALM,
                             dhost=NODE_HOST if n % 2 else None, extra=tag)
    if ev == "app_ans":
        return C.app_answer(APP_ID, 316, hb, ee, "p;6;%d" % n, PEER_HOST, PEER_REALM, extra=tag)
    if ev == "app_req_misaddressed":
        if n % 3 == 2:
            # a vendor-specific AVP that merely shares the code of Destination-Host / Destination-Realm
            return C.app_request(APP_ID, 316, hb, ee, "p;6;%d" % n, PEER_HOST, PEER_REALM, NODE_REALM,
                                 extra=tag + [(C.DEST_HOST if n % 2 else C.DEST_REALM, C.AF_V | C.AF_M, 10415, b"someone.else")])
        if n % 2:
            return C.app_request(APP_ID, 316, hb, ee, "p;6;%d" % n, PEER_HOST, PEER_REALM, "other.realm",
                                 dhost="someone.else", extra=tag)
        return C.app_request(APP_ID, 316, hb, ee, "p;6;%d" % n, PEER_HOST, PEER_REALM, "other.realm", extra=tag)
    raise ValueError(ev)


class C06(Check):
    prop = "C06"
    quick_runs = 192
    thorough_runs = 3000
    run_wall = 600.0
    rule = ("one run = an event history (<= 12 events, up to 3 starts of the same node object) over the RFC 6733 alphabet "
            "(valid / identity-invalid / in-between CER CEA DWR DWA DPR DPA, application request/answer, misaddressed "
            "request, connect ack/nack, local stop, peer disconnect/reset, idle beyond the watchdog) in client or server "
            "role with 0..2 configured applications, sequential (state and wire compared with ref/psm_model.py after "
            "every event) or concurrent (hard clauses only), under a seeded schedule; distinct = distinct (role, event "
            "sequence actually applied, observed state sequence); non-trivial = at least two events applied")
    components_real = ["PeerStateMachine + Closed/WaitConnAck/WaitInitiatorCEA/Open/Closing", "process.py validators",
                       "DiameterAssociation.tracking_events (watchdog)", "transport, send/receive paths"]
    components_stub = ["OS sockets/selectors/threads/clock (simkit)", "remote peer (ref.peer.ScriptedPeer, all answers manual)"]
    assumptions = ["'valid' base messages are in the canonical form a bromelia peer itself produces; identity-invalid ones differ "
                   "in Origin-Host or Origin-Realm; in-between forms are permissive in the model",
                   "settling time after an event is bounded by Q = SLEEP_TIMER + 2 select timeouts + 20 ticks + 1.5 s"]

    def gen_scenario(self, rng, tier, index):
        mode = rng.choice(["CLIENT", "SERVER"])
        timing = "sequential" if rng.random() < 0.8 else "concurrent"
        nev = rng.randint(2, 8 if tier == "quick" else 12)
        # bias: open the connection first in most runs
        events = []
        x = rng.random()
        if x < 0.65:
            events.append("cea_valid" if mode == "CLIENT" else "cer_valid")
        elif x < 0.80:
            events.append(rng.choice(["cea_bad_host", "cea_bad_realm", "cea_bad_host_dup", "cea_bad_realm_dup"]) if mode == "CLIENT"
                          else rng.choice(["cer_bad_host", "cer_bad_realm", "cer_bad_host_dup", "cer_no_host_dup"]))
        weights = {"dwr_valid": 4, "app_req": 4, "app_ans": 3, "local_stop": 3, "dpa_valid": 3, "dpr_valid": 3,
                   "peer_disc": 2, "idle": 2, "cer_valid": 2, "cea_valid": 2, "app_req_misaddressed": 3,
                   "cer_bad_host_dup": 2, "cea_bad_host_dup": 2}
        names = M.EVENTS
        w = [weights.get(n, 1) for n in names]
        while len(events) < nev:
            events.append(rng.choices(names, w)[0])
        starts = [rng.choice(["ack", "ack", "ack", "nack"]) for _ in range(3)]
        knobs = draw_knobs(rng)
        knobs["SLEEP_TIMER"] = rng.choice([0.1, 0.3])
        knobs["STATE_MACHINE_TICKER"] = rng.choice([0.002, 0.005, 0.01, 0.02])
        # other associations in the same process: a second node with a DIFFERENT configured peer has a
        # capabilities exchange first ("poison": with the identity our impostor events use; "reject": it
        # sees, and rejects, the identity of OUR configured peer)
        aux = rng.choice([None, None, None, "poison", "reject"])
        # (drawn from a generator of its own, after everything else) a chatty application: one of its threads keeps
        # submitting messages while the events below arrive -- local activity the statement's alphabet leaves out but
        # every application has; not in histories with an idle period (outbound traffic legitimately postpones the watchdog)
        rngc = random.Random()
        rngc.setstate(rng.getstate())       # a copy: the main stream stays what it was
        chatty = None
        if "idle" not in events and rngc.random() < 0.35:
            chatty = {"gap": rngc.choice([0.0005, 0.005, 0.05]), "n": rngc.choice([3, 10, 40])}
        return {"chatty": chatty, "mode": mode, "apps_idx": rng.randrange(3), "events": events, "timing": timing, "aux": aux,
                "starts": starts, "gaps": [rng.choice([0.0, 0.0005, 0.003, 0.02]) for _ in events],
                "consumer": rng.random() < 0.8,
                "sched": draw_sched(rng), "knobs": knobs, "watchdog": rng.choice([1, 2]),
                "net": {"max_latency": rng.choice([0.0005, 0.003]), "p_fragment": rng.choice([0.0, 0.2])},
                "horizon": 200.0}

    def shrink(self, scn):
        if scn.get("chatty"):
            c = copy.deepcopy(scn)
            c["chatty"] = None
            yield c
        ev = scn["events"]
        for i in range(len(ev)):
            if len(ev) > 1:
                c = copy.deepcopy(scn)
                del c["events"][i]
                del c["gaps"][i]
                yield c
        if scn["apps_idx"]:
            c = copy.deepcopy(scn)
            c["apps_idx"] = 0
            yield c
        if scn["net"].get("p_fragment"):
            c = copy.deepcopy(scn)
            c["net"]["p_fragment"] = 0.0
            yield c
        if scn["timing"] == "concurrent":
            c = copy.deepcopy(scn)
            c["timing"] = "sequential"
            yield c
        if scn.get("aux"):
            c = copy.deepcopy(scn)
            c["aux"] = None
            yield c

    def nontrivial(self, res):
        return res.get("applied", 0) >= 2

    def sample(self, scn, res):
        return {"mode": scn["mode"], "events": scn["events"], "timing": scn["timing"], "starts": scn["starts"],
                "apps": scn["apps_idx"], "outcome": res.get("summary")}

    # ------------------------------------------------------------------
    def run(self, scn, tape_in=None):
        mode = scn["mode"]
        role = "client" if mode == "CLIENT" else "server"
        net = dict(scn.get("net", {}))
        net["connect_outcome"] = "ack" if scn["starts"][0] == "ack" else "refuse"
        peerb = {"answer_cer": "none", "answer_dwr": False, "answer_dpr": False, "close_on_dpa_rcv": False,
                 "close_after_dpa": False}
        w = WorldA(dict(scn, net=net, peer=peerb, apps=APPS_CFG[scn["apps_idx"]], auto_peer_cer=False), tape_in)
        sim = w.sim
        knobs = w.world.knobs
        tick = knobs["STATE_MACHINE_TICKER"]
        lat = w.net.cfg.max_latency
        Qmin = lat * 3 + 8 * tick + 0.002 + 40000 * sim.quantum
        Qmax = knobs["SLEEP_TIMER"] + 2 * knobs["TRACKING_SOCKET_EVENTS_TIMEOUT"] + 1.5 + 20 * tick + 200000 * sim.quantum
        violations = []
        st = {"applied": 0, "skipped": 0, "conns": 0}
        trace = []          # (event, pre-state, observed)
        sent_app = {}       # tag -> {"open_possible": bool, "conn": int}
        ctx = {"exchange_ok": False, "conn": -1, "alive": False, "model": M.CLOSED, "n": 0,
               "dpr_stops": 0, "h1_bad": None}

        def viol(clause, sig, detail):
            d = dict(detail)
            d["trace"] = trace[-8:]
            d["role"] = role
            violations.append({"clause": clause, "sig": "C06/%s" % sig, "detail": d})

        def psm_thread():
            ts = [t for t in w.lib_threads() if "psm_thread" in t.role]
            return ts[-1] if ts else None

        def node_out(offset=0):
            ps = w.peer.sock
            if ps is None or ps.peer is None:
                return []
            fr = C.Framer()
            return [m for m in fr.feed(bytes(ps.peer.tx_bytes)) if m["offset"] >= offset]

        def out_len():
            ps = w.peer.sock
            return len(ps.peer.tx_bytes) if ps is not None and ps.peer is not None else 0

        def observe():
            s = M.norm(w.state())
            if s == M.OPEN and not ctx["exchange_ok"] and ctx["h1_bad"] is None:
                ctx["h1_bad"] = {"t": sim.now, "conn": ctx["conn"]}
            return s

        def check_h7(pre_steps):
            s = w.state()
            t = psm_thread()
            if s == "Closed" or t is None:
                return
            if t.state == "done":
                exc = t.exc
                viol("no input makes the state machine raise or stop ticking", "H7/psm-thread-died/%s" % (
                    type(exc).__name__ if exc else "exited"),
                    {"state": s, "exc": "%s: %s" % (type(exc).__name__, exc) if exc else None})
            elif t.state == "blocked" and t.wait_on and t.wait_on[0] != "sleep" and t.steps == pre_steps \
                    and t.block_since is not None and sim.now - t.block_since > Qmin:
                viol("no input makes the state machine raise or stop ticking", "H7/psm-thread-stuck",
                     {"state": s, "wait_on": repr(t.wait_on), "blocked_for": sim.now - t.block_since})

        def released():
            # threads / sockets of the auxiliary node (if any) are not this node's business
            return all(t.state == "done" for t in w.lib_threads() if t.tid > ctx.get("aux_tid", 0)) and \
                all(s.state == "closed" and not s.selectors for s in w.node_socks() if s not in ctx.get("aux_socks", ()))

        def check_h8():
            if not sim.wait_until(lambda: w.state() == "Closed" and released(), Qmax, poll=Qmax / 40.0):
                if w.state() == "Closed":
                    viol("Closed implies the transport has been released", "H8/closed-not-released",
                         {"sockets": [(s.name, s.state, len(s.selectors)) for s in w.node_socks() if s.state != "closed" or s.selectors],
                          "threads": [(t.role, t.state, repr(t.wait_on)) for t in w.lib_threads() if t.state != "done"]})
                    return False
            return True

        def start_connection(k):
            """(re)start the node; returns True when a transport connection exists."""
            outcome = scn["starts"][min(k, len(scn["starts"]) - 1)]
            w.net.cfg.connect_outcome = "ack" if outcome == "ack" else "refuse"
            ctx["exchange_ok"] = False
            ctx["conn"] += 1
            st["conns"] += 1
            refused0 = w.net.stats["connect_refused"]
            rec = w.start_node()
            if role == "client":
                if outcome == "ack":
                    ok = sim.wait_until(lambda: M.norm(w.state()) == M.WICEA and
                                        any(m["code"] == C.CE and C.is_request(m) for m in node_out()), 10.0, poll=tick)
                    s = observe()
                    trace.append(("start/ack", M.CLOSED, s))
                    if not ok:
                        viol("client: connect, send CER", "start/no-cer-after-connect-ack",
                             {"state": w.state(), "start_call": {"ok": rec["ok"], "exc": rec["exc"]}})
                        return False
                    ctx["model"] = M.WICEA
                    ctx["alive"] = True
                    return True
                # nack: must come back to Closed, released
                sim.wait_until(lambda: rec["t1"] is not None and w.net.stats["connect_refused"] > refused0, 5.0, poll=tick)
                ok = sim.wait_until(lambda: w.state() == "Closed" and released(), Qmax + 1.0, poll=0.01)
                trace.append(("start/nack", M.CLOSED, M.norm(w.state())))
                if not ok:
                    viol("a refused connection closes it", "H4/connect-nack-not-closed",
                         {"state": w.state(), "threads": [(t.role, t.state, repr(t.wait_on)) for t in w.lib_threads() if t.state != "done"]})
                ctx["model"] = M.CLOSED
                ctx["alive"] = False
                return False
            # server: wait for the peer's transport connection to be accepted
            ok = sim.wait_until(lambda: w.peer.sock is not None and w.peer.sock.state == "connected" and
                                w.peer.conn_index == ctx["conn_target"], 10.0, poll=tick)
            trace.append(("start/listen", M.CLOSED, M.norm(w.state())))
            if not ok:
                viol("server accepts a transport connection", "start/server-no-accept",
                     {"state": w.state(), "start_call": {"ok": rec["ok"], "exc": rec["exc"]}})
                return False
            sim.sleep(3 * tick)
            ctx["model"] = M.CLOSED
            ctx["alive"] = True
            return True

        def run_aux(kind):
            """A second Diameter node of this process, configured for ANOTHER peer, exchanges capabilities
            before the node under test does.  Nothing about the auxiliary node itself is judged."""
            from bromelia.setup import Diameter
            from ref.peer import ScriptedPeer
            bad_host, bad_realm = "intruder." + PEER_REALM, "elsewhere.example"
            cfg = {"MODE": "SERVER", "APPLICATIONS": [], "LOCAL_NODE_HOSTNAME": "aux.local", "LOCAL_NODE_REALM": "realm.local",
                   "LOCAL_NODE_IP_ADDRESS": "127.0.0.1", "LOCAL_NODE_PORT": 3870, "PEER_NODE_HOSTNAME": bad_host,
                   "PEER_NODE_REALM": bad_realm, "PEER_NODE_IP_ADDRESS": "127.0.0.1", "PEER_NODE_PORT": 3870,
                   "WATCHDOG_TIMEOUT": 30}
            aux = Diameter(config=cfg)
            w.call("aux_start", aux.start)
            ap = ScriptedPeer(sim, w.net, bad_host, bad_realm, "aux.local", "realm.local", w.hist,
                              behaviour={"answer_cer": "none", "answer_dwr": False}, name="auxpeer")
            sim.wait_until(lambda: ("127.0.0.1", 3870) in w.net.listeners, 5.0, poll=tick)
            done = []
            ap.connect(("127.0.0.1", 3870), then=lambda p: done.append(1))
            sim.wait_until(lambda: bool(done), 5.0, poll=tick)
            sim.sleep(4 * tick)
            if kind == "poison":
                ap.send(C.cer(bad_host, bad_realm, hbh=0x9001, e2e=0x9002))
                sim.wait_until(lambda: aux.get_current_state() == "R-Open", Qmax, poll=tick * 2)
                ap.send(C.dwr(bad_host, bad_realm, hbh=0x9003, e2e=0x9004))
                sim.sleep(6 * tick)
                ap.send(C.dpr(bad_host, bad_realm, hbh=0x9005, e2e=0x9006))
            else:
                # the auxiliary node sees (and, being configured for someone else, rejects) OUR peer's identity
                ap.send(C.cer(PEER_HOST, PEER_REALM, hbh=0x9001, e2e=0x9002))
                sim.sleep(8 * tick)
                ap.send(C.dwr(PEER_HOST, PEER_REALM, hbh=0x9003, e2e=0x9004))
                sim.sleep(6 * tick)
            sim.sleep(knobs["SLEEP_TIMER"] + 6 * tick)
            ap.close()
            sim.sleep(Qmin + 2 * knobs["TRACKING_SOCKET_EVENTS_TIMEOUT"])
            sim.probe("aux_node_" + kind)

        def main(sim):
            if scn.get("aux"):
                run_aux(scn["aux"])
                ctx["aux_tid"] = max(t.tid for t in sim.threads)
                ctx["aux_socks"] = list(w.net.sockets)
                w.ignore_socks = set(ctx["aux_socks"])
            ctx["conn_target"] = 0
            starts_done = 0
            alive = start_connection(starts_done)
            starts_done += 1
            consumer = None
            if scn.get("consumer"):
                consumer = w.start_consumer("consumer0")
            if scn.get("chatty"):
                from bromelia.base import DiameterRequest
                from bromelia.avps import SessionIdAVP, OriginHostAVP, OriginRealmAVP, DestinationRealmAVP

                def chatter(n_):
                    for i_ in range(n_):
                        try:
                            w.node.send_message(DiameterRequest(application_id=APP_ID, command_code=316, avps=[
                                SessionIdAVP(("n;8;%d" % i_).encode()), OriginHostAVP(NODE_HOST),
                                OriginRealmAVP(NODE_REALM), DestinationRealmAVP(PEER_REALM)]))
                        except BaseException as e:      # noqa  (library errors derive from BaseException)
                            if type(e).__name__ in ("SimStop", "SimHang"):
                                raise
                        sim.sleep(scn["chatty"]["gap"])
                    return "done"
                ctx["chatter"] = chatter
                sim.probe("chatty_app")
            sequential = scn["timing"] == "sequential"
            for i, ev in enumerate(scn["events"]):
                if violations or sim.halted:
                    break
                if not ctx["alive"]:
                    # the connection is over (or never came up): restart the same object
                    if starts_done >= 3:
                        break
                    if not check_h8():
                        break
                    ctx["conn_target"] = len(w.peer.socks)
                    alive = start_connection(starts_done)
                    starts_done += 1
                    if scn.get("consumer"):
                        consumer = w.start_consumer("consumer%d" % starts_done)
                    if not ctx["alive"]:
                        continue
                if scn["gaps"][i]:
                    sim.sleep(scn["gaps"][i])
                # late transitions since the last observation must stay within what was allowed
                pre = observe()
                if sequential and pre != ctx["model"]:
                    if pre not in ctx.get("last_allowed", {ctx["model"]}):
                        viol("state follows the peer state machine", "model/spontaneous-transition/%s->%s" % (ctx["model"], pre),
                             {"from": ctx["model"], "to": pre})
                        break
                    ctx["model"] = pre
                if pre == M.CLOSED and role == "client":
                    ctx["alive"] = False
                    continue
                if pre == M.CLOSED and role == "server" and (w.peer.sock is None or w.peer.sock.state != "connected"):
                    ctx["alive"] = False
                    continue
                ctx["n"] += 1
                n = ctx["n"]
                t_psm = psm_thread()
                pre_steps = t_psm.steps if t_psm else 0
                off0 = out_len()
                burst = None
                if ctx.get("chatter") and pre not in (M.CLOSED,):
                    # a burst of local submissions overlaps this event; the verdict on the event is taken once the
                    # burst is over (while the application keeps the send queue busy the state machine serves nothing
                    # else - how long inbound events may wait under sustained outbound load is not part of the statement)
                    burst = w.call("chatter", ctx["chatter"], scn["chatty"]["n"])
                    sim.sleep(scn["chatty"]["gap"] * 2)
                # ---- inject ---------------------------------------------------
                if ev in M.MESSAGE_EVENTS:
                    m = make_message(ev, n)
                    if ev in ("cea_valid", "cea_odd") and pre in (M.WICEA, M.WRET, M.WELECT):
                        ctx["exchange_ok"] = True
                    if ev in ("cer_valid", "cer_odd") and role == "server" and pre == M.CLOSED:
                        ctx["exchange_ok"] = True
                    if ev.startswith("app_"):
                        sent_app[("e%04d" % n).encode()] = {"open_possible": ctx["exchange_ok"], "pre": pre, "ev": ev}
                    if not w.peer.send(m):
                        st["skipped"] += 1
                        continue
                elif ev in ("peer_disc", "peer_rst"):
                    w.peer.close(reset=(ev == "peer_rst"))
                elif ev == "local_stop":
                    rec = w.call("close", w.node.close)
                    sim.wait_until(lambda: rec["t1"] is not None, Qmin, poll=tick / 2)
                    if rec["ok"] is False and "already closed" in (rec["exc"] or ""):
                        st["skipped"] += 1
                        continue
                    if pre == M.OPEN:
                        ctx["dpr_stops"] += 1
                elif ev == "idle":
                    sim.sleep(scn["watchdog"] + 3 * knobs["TRACKING_SOCKET_EVENTS_TIMEOUT"] + 1.0)
                st["applied"] += 1
                if burst is not None:
                    sim.wait_until(lambda: burst["t1"] is not None, 60.0, poll=max(tick, 0.01))
                if not sequential:
                    continue
                # ---- settle and compare with the model -----------------------------
                allowed, obligations = M.allowed(role, pre, ev)
                ctx["last_allowed"] = allowed
                sim.sleep(Qmin)
                sim.wait_until(lambda: observe() in allowed and (observe() != pre or pre in allowed and len(allowed) == 1),
                               Qmax if (allowed - {pre}) else Qmin, poll=max(tick, Qmax / 60.0))
                if pre in allowed and len(allowed) > 1:
                    # permissive entry: give a late transition the chance to happen
                    sim.sleep(min(Qmax, 6 * tick + knobs["SLEEP_TIMER"] + 0.05))
                obs = observe()
                trace.append((ev, pre, obs))
                if obs not in allowed:
                    viol("state follows the peer state machine (%s in %s)" % (ev, pre),
                         "model/%s/%s/%s->%s" % (role, ev, pre, obs),
                         {"event": ev, "pre": pre, "observed": obs, "allowed": sorted(allowed)})
                    break
                out = node_out(off0)
                for ob in obligations:
                    if ob[0] == "answer":
                        code = {"CEA": C.CE, "DWA": C.DW, "DPA": C.DP}[ob[1]]
                        hit = [x for x in out if x["code"] == code and not C.is_request(x) and
                               x["hbh"] == m["hbh"] and x["e2e"] == m["e2e"]]
                        if not hit:
                            viol("a received %s is answered" % ev, "wire/no-%s/%s" % (ob[1], role),
                                 {"event": ev, "pre": pre, "written": [C.summary(x)["code"] for x in out]})
                    elif ob[0] == "one_dpr":
                        k = sum(1 for x in out if x["code"] == C.DP and C.is_request(x))
                        if k != 1:
                            viol("a local stop sends one DPR", "H2/dpr-count-%d" % min(k, 2), {"dprs": k, "pre": pre, "obs": obs})
                    elif ob[0] == "dwr":
                        k = sum(1 for x in out if x["code"] == C.DW and C.is_request(x))
                        waited = scn["watchdog"] + 3 * knobs["TRACKING_SOCKET_EVENTS_TIMEOUT"] + 1.0
                        # (how MANY watchdog requests an idle period produces is not judged: the implementation's
                        # idle counter counts selector rounds, not seconds, so even the repaired tree emits them
                        # faster than configured after traffic; a clause bounding the rate raised a false alarm)
                        if k < 1:
                            viol("an idle open connection emits a watchdog request after the configured timeout",
                                 "H5/no-dwr", {"watchdog": scn["watchdog"], "waited": scn["watchdog"] + 3 * knobs["TRACKING_SOCKET_EVENTS_TIMEOUT"] + 1.0})
                ctx["model"] = obs
                check_h7(pre_steps)
                if obs == M.CLOSED and pre != M.CLOSED:
                    ctx["alive"] = False
                    check_h8()
                if obs == M.CLOSED and role == "server" and ev in ("peer_disc", "peer_rst"):
                    ctx["alive"] = False
                    check_h8()
            # ---- end of history -------------------------------------------------
            sim.sleep(Qmin)
            if not sequential:
                sim.sleep(Qmax)
                observe()
                t = psm_thread()
                check_h7(t.steps if t else 0)
                if w.state() == "Closed" and ctx["conn"] >= 0 and (role == "client" or not ctx["alive"] or
                                                                   (w.peer.sock is not None and w.peer.sock.state != "connected")):
                    check_h8()
            # H2: never more than one DPR per local stop on a connection
            for ci, ps in enumerate(w.peer.socks):
                fr = C.Framer()
                k = sum(1 for x in fr.feed(bytes(ps.peer.tx_bytes)) if x["code"] == C.DP and C.is_request(x))
                if k > 1:
                    viol("a local stop sends one DPR", "H2/dpr-count-2", {"conn": ci, "dprs": k})
            # H1
            if ctx["h1_bad"] is not None:
                viol("Open only after a capabilities exchange with the configured peer identity",
                     "H1/open-without-valid-exchange/%s" % role, dict(ctx["h1_bad"], events=scn["events"]))
            # H6
            for mm in w.delivered:
                try:
                    tags = [a.data for a in mm.avps if int.from_bytes(a.code, "big") == TAG]
                except BaseException:       # noqa
                    tags = []
                for tg in tags:
                    info = sent_app.get(bytes(tg))
                    if info is not None and not info["open_possible"]:
                        viol("application messages are handed to the application only while Open",
                             "H6/delivered-while-not-open/%s" % role, {"tag": bytes(tg).decode(), "sent_in_state": info["pre"]})
            # thread exceptions of the state machine thread at any time while not Closed are H7
            for t, e in sim.thread_exceptions:
                if "psm_thread" in t.role and not any(v["sig"].startswith("C06/H7") for v in violations):
                    viol("no input makes the state machine raise or stop ticking",
                         "H7/psm-thread-died/%s" % type(e).__name__, {"exc": "%s: %s" % (type(e).__name__, str(e)[:200])})

        sim.run_main(main)
        for iv in w.invariant_violations[:1]:
            # seen by the observer that runs at every context switch: the reported state was Closed (after having
            # been something else) while a socket of the node was still open or registered
            viol("Closed implies the transport has been released", "H8/closed-visible-before-release", iv)
        sigs = set()
        uniq = []
        for v in violations:
            if v["sig"] not in sigs:
                sigs.add(v["sig"])
                uniq.append(v)
        import hashlib
        hs = hashlib.sha256(repr((role, trace)).encode()).hexdigest()[:16]
        states = sorted(set("%s:%s" % (role, t[2]) for t in trace))
        return base_result(sim, uniq, summary={"applied": st["applied"], "skipped": st["skipped"], "conns": st["conns"],
                                               "trace": trace[:14]},
                           extra={"applied": st["applied"], "sched_sig": hs, "abstract_states": states + sorted(w.abstract_states),
                                  "faults": dict([("event:" + t[0], 1) for t in trace][:0],
                                                 **_count_events(trace),
                                                 preemption_in_bromelia_code=sim.preempt_line + sim.preempt_opcode)})


def _count_events(trace):
    d = {}
    for t in trace:
        k = "event:" + t[0]
        d[k] = d.get(k, 0) + 1
    return d


CHECK = C06()
