# -*- coding: utf-8 -*-
"""
C15 -- Request identifiers are never reused within a process.

World C: 1..4 simulator threads create requests / answers through the public
constructors while the simulator owns os.urandom (honest, low-entropy,
constant runs, cycling, "echo what another thread just drew") and the
scheduler pre-empts inside the two allocation methods at source-line and
bytecode granularity.
"""

import random

from simkit.kernel import Sim
from simkit.seams import SimWorld, bromelia_trace_root, import_bromelia
from simkit.driver import Check, base_result

TYPED_REQUESTS = [
    ("bromelia.lib.ietf_rfc6733.messages", "CapabilitiesExchangeRequest", {}),
    ("bromelia.lib.ietf_rfc6733.messages", "DeviceWatchdogRequest", {}),
    ("bromelia.lib.ietf_rfc6733.messages", "DisconnectPeerRequest", {}),
    ("bromelia.lib.ietf_rfc6733.messages", "SessionTerminationRequest", {"destination_realm": "r.example"}),
    ("bromelia.lib.etsi_3gpp_gx.messages", "CreditControlRequest", {"destination_realm": "r.example"}),
    ("bromelia.lib.etsi_3gpp_gx.messages", "ReAuthRequest", {"destination_realm": "r.example"}),
    ("bromelia.lib.etsi_3gpp_rx.messages", "AARequest", {"destination_realm": "r.example"}),
    ("bromelia.lib.etsi_3gpp_rx.messages", "SessionTerminationRequest", {"destination_realm": "r.example"}),
    ("bromelia.lib.etsi_3gpp_s6a.messages", "AuthenticationInformationRequest",
     {"destination_realm": "r.example", "user_name": "u1", "visited_plmn_id": bytes.fromhex("27f450")}),
    ("bromelia.lib.etsi_3gpp_s6a.messages", "NotifyRequest", {"destination_realm": "r.example", "user_name": "u1"}),
    ("bromelia.lib.etsi_3gpp_s6a.messages", "PurgeUeRequest", {"destination_realm": "r.example", "user_name": "u1"}),
    ("bromelia.lib.etsi_3gpp_s6a.messages", "UpdateLocationRequest",
     {"destination_realm": "r.example", "user_name": "u1", "visited_plmn_id": bytes.fromhex("27f450")}),
    ("bromelia.lib.etsi_3gpp_s6b.messages", "AARequest", {"destination_realm": "r.example"}),
    ("bromelia.lib.etsi_3gpp_swx.messages", "MultimediaAuthRequest", {"destination_realm": "r.example", "user_name": "u1"}),
    ("bromelia.lib.etsi_3gpp_swx.messages", "ServerAssignmentRequest", {"destination_realm": "r.example", "user_name": "u1"}),
]
TYPED_ANSWERS = [
    ("bromelia.lib.ietf_rfc6733.messages", "CapabilitiesExchangeAnswer", {}),
    ("bromelia.lib.ietf_rfc6733.messages", "DeviceWatchdogAnswer", {}),
    ("bromelia.lib.etsi_3gpp_s6a.messages", "UpdateLocationAnswer", {}),
    ("bromelia.lib.etsi_3gpp_gx.messages", "CreditControlAnswer", {}),
    ("bromelia.lib.etsi_3gpp_swm.messages", "DiameterEapAnswer", {}),
]

ALLOC_FUNCS = ["DiameterRequest.__set_hop_by_hop_identifier",
               "DiameterRequest.__set_end_to_end_identifier",
               "DiameterRequest._DiameterRequest__set_hop_by_hop_identifier",
               "DiameterRequest._DiameterRequest__set_end_to_end_identifier",
               "DiameterRequest.__init__"]


class AdversarialSource(object):
    """Deterministic os.urandom(4) replacement.  Always *eventually* yields a
    value it never returned before, so a draw-until-unused loop terminates."""

    def __init__(self, cfg, sim):
        self.cfg = cfg
        self.sim = sim
        self.r = random.Random(cfg.get("seed", 0))
        self.returned = set()
        self.history = []
        self.last_by_thread = {}
        self.stale_run = 0
        self.calls = 0
        self.repeats = 0
        self.by_thread = {}
        self.small = None
        self.inject = []        # values to hand out next, whatever the mode
        self.pending_repeat = None
        self.last_fresh = None
        self.rep_target = None

    def fresh(self):
        if self.cfg.get("mode") == "neighbours" and self.history and self.r.random() < 0.85:
            # fresh values that are numeric neighbours of the values handed out before (a counter-like source)
            base = int.from_bytes(self.last_fresh or self.history[-1], "big")
            for d in (1, 2, -1, 3):
                v = ((base + d) & 0xffffffff).to_bytes(4, "big")
                if v not in self.returned:
                    self.last_fresh = v
                    return v
        while True:
            v = self.r.getrandbits(32).to_bytes(4, "big")
            if v not in self.returned:
                self.last_fresh = v
                return v

    def __call__(self, n):
        self.calls += 1
        cfg = self.cfg
        mode = cfg.get("mode", "honest")
        tid = self.sim.cur.tid
        self.by_thread[tid] = self.by_thread.get(tid, 0) + 1
        if n != 4:
            return bytes(self.r.getrandbits(8) for _ in range(n))
        maxrep = cfg.get("max_repeat", 6)
        v = None
        if self.inject:
            v = self.inject.pop(0)
        if v is not None:
            pass
        elif self.stale_run < maxrep and self.history:
            if mode == "lowent":
                k = cfg.get("k", 4)
                if self.small is None:
                    self.small = [self.r.getrandbits(32).to_bytes(4, "big") for _ in range(k)]
                v = self.small[self.r.randrange(k)]
            elif mode == "constant":
                v = self.history[-1]
            elif mode == "cycle":
                m = cfg.get("k", 3)
                v = self.history[-m] if len(self.history) >= m else self.history[0]
            elif mode == "echo":
                others = [x for t, x in self.last_by_thread.items() if t != tid]
                if others and self.r.random() < cfg.get("p", 0.7):
                    v = others[self.r.randrange(len(others))]
            elif mode in ("samelow", "samehigh"):
                # distinct values that agree in their low (or high) N bits
                nb = cfg.get("bits", 20)
                fixed = cfg.get("seed", 0) & ((1 << nb) - 1)
                for _ in range(8):
                    rnd = self.r.getrandbits(32 - nb)
                    val = (rnd << nb) | fixed if mode == "samelow" else (fixed << (32 - nb)) | rnd
                    cand = val.to_bytes(4, "big")
                    if cand not in self.returned:
                        v = cand
                        break
            elif mode == "replay_old":
                # hand out, again, values issued long ago (the first few of the process)
                if len(self.history) > cfg.get("after", 64) and self.r.random() < cfg.get("p", 0.3):
                    v = self.history[self.r.randrange(min(8, len(self.history)))]
            elif mode == "straddle":
                # a value spelled by the tail of one issued identifier and the head of the next (what a
                # search over a packed table finds at an unaligned offset); handed out, then handed out again
                if self.pending_repeat is not None:
                    v, self.pending_repeat = self.pending_repeat, None
                elif len(self.history) >= 2 and self.r.random() < cfg.get("p", 0.7):
                    i = self.r.randrange(len(self.history) - 1)
                    k = self.r.randrange(1, 4)
                    v = (self.history[i] + self.history[i + 1])[k:k + 4]
                    self.pending_repeat = v
            elif mode == "neighbours":
                # long runs of ONE value that was handed out earlier (the run length is max_repeat: tens to hundreds)
                if self.rep_target is None and len(self.history) >= cfg.get("after", 6) and self.r.random() < cfg.get("p", 0.5):
                    self.rep_target = self.history[self.r.randrange(len(self.history))]
                if self.rep_target is not None:
                    v = self.rep_target
            elif mode == "boundary":
                if self.r.random() < 0.5:
                    v = self.r.choice([b"\x00\x00\x00\x00", b"\xff\xff\xff\xff",
                                       b"\x00\x00\x00\x01", b"\x80\x00\x00\x00"])
        elif mode == "lowent" and self.small is None:
            k = cfg.get("k", 4)
            self.small = [self.r.getrandbits(32).to_bytes(4, "big") for _ in range(k)]
            v = self.small[0]
        if v is None:
            v = self.fresh()
        if v in self.returned:
            self.stale_run += 1
            self.repeats += 1
        else:
            self.stale_run = 0
            self.rep_target = None
        self.returned.add(v)
        self.history.append(v)
        self.last_by_thread[tid] = v
        return v


class C15(Check):
    prop = "C15"
    quick_runs = 240
    thorough_runs = 3000
    run_wall = 600.0
    rule = ("one run = one creation history (generic/typed requests, answers, explicit-header objects) "
            "executed by 1..4 simulator threads under a seeded schedule with a simulator-owned os.urandom "
            "(honest / low-entropy / constant / cycling / echo / boundary); distinct = distinct schedule "
            "signature (hash of the thread-switch sequence); non-trivial = the random source repeated a "
            "value at least once or a pre-emption landed inside an allocation method")
    components_real = ["bromelia.base.DiameterRequest/DiameterAnswer constructors and identifier allocation",
                       "typed request/answer classes of bromelia.lib.*"]
    components_stub = ["os.urandom (simulator-owned adversarial source)", "thread scheduling (simkit kernel)"]
    assumptions = ["the random source eventually yields a value it has not produced before",
                   "pre-emption granularity is CPython 3.12 source line / bytecode"]

    def gen_scenario(self, rng, tier, index):
        nthreads = rng.choice([1, 1, 2, 2, 3, 4])
        nops = rng.randint(2, 10 if tier == "quick" else 30)
        threads = []
        for t in range(nthreads):
            ops = []
            for _ in range(nops):
                x = rng.random()
                if x < 0.40:
                    ops.append(["gen"])
                elif x < 0.70:
                    ops.append(["typed", rng.randrange(len(TYPED_REQUESTS))])
                elif x < 0.78:
                    ops.append(["ans", rng.randrange(len(TYPED_ANSWERS))])
                elif x < 0.82:
                    ops.append(["gen_ans"])
                elif x < 0.91:
                    ops.append(["hdr_req", rng.getrandbits(32), rng.getrandbits(32)])
                elif x < 0.96:
                    ops.append(["hdr_ans", rng.getrandbits(32), rng.getrandbits(32)])
                elif rng.random() < 0.5:
                    ops.append(["hdr_reuse"])       # explicit header copied from an earlier request
                elif rng.random() < 0.25:
                    ops.append(["gc"])              # memory pressure: request objects created so far are collected
                else:
                    # a construction that FAILS (invalid AVP list): on the explicit-header path it must
                    # leave the identifiers of the request whose header it borrowed alone
                    ops.append([rng.choice(["hdr_reuse_bad", "hdr_reuse_bad", "gen_bad"])])
            threads.append(ops)
        mode = rng.choice(["honest", "lowent", "constant", "cycle", "echo", "echo", "boundary", "replay_old",
                           "samelow", "samehigh"])
        long_history = (index % 40 == 39)
        very_long = (index % 240 == 119)
        if long_history or very_long:
            # a long process life: thousands of requests, then the source replays early values
            n_bulk = rng.choice([4500, 6000]) if not very_long else rng.choice([17000, 20000])
            threads = [[["bulk", n_bulk], ["gen"], ["typed", 0], ["gen"], ["typed", 1], ["gen"], ["gen"]]]
            mode = "replay_old"
            long_history = True
        aged = (index % 10 == 7) and not long_history
        if aged:
            # a long process LIFE rather than a long history: a few requests, then minutes / hours / days of
            # idleness (and perhaps a stepped wall clock), then the source replays the early values
            pre = [rng.choice([["gen"], ["typed", rng.randrange(len(TYPED_REQUESTS))]]) for _ in range(rng.randint(2, 6))]
            post = [rng.choice([["gen"], ["typed", rng.randrange(len(TYPED_REQUESTS))]]) for _ in range(rng.randint(3, 8))]
            mid = [["idle", rng.choice([90.0, 241.0, 3700.0, 90000.0, 3.0e6])]]
            if rng.random() < 0.4:
                mid.append(["clock_step", rng.choice([-7200.0, 3600.0, 1.0e6])])
            if rng.random() < 0.4:
                mid.append(["gc"])
            threads = [pre + mid + post]
            mode = "replay_old"
        elif index % 10 == 3 and not long_history:
            mode = "straddle"
        neighbours = (index % 10 == 8) and not long_history
        if neighbours:
            mode = "neighbours"
        src = {"mode": mode, "seed": rng.getrandbits(32), "k": rng.choice([2, 3, 4, 8]),
               "max_repeat": rng.choice([1, 2, 4, 8, 16]), "p": rng.choice([0.5, 0.8, 1.0]),
               "bits": rng.choice([8, 16, 20, 24])}
        if neighbours:
            src.update({"max_repeat": [20, 40, 70, 300][(index // 10) % 4], "after": 6, "p": 0.3})
        if long_history:
            src.update({"after": threads[0][0][1] - 100, "p": 0.9, "max_repeat": 6})
        if aged:
            src.update({"after": 2 * (len(threads[0]) - len(post) - len(mid)) - 1, "p": 0.9, "max_repeat": 6})
        pol = rng.choice(["sync", "line", "line", "opcode", "opcode"])
        if long_history:
            pol = "sync"
        sched = {"policy": pol, "p_sync": rng.choice([0.1, 0.3, 0.6]),
                 "p_line": 0.0 if pol == "sync" else rng.choice([0.02, 0.1, 0.3]),
                 "opcode": pol == "opcode", "quantum": 1e-6}
        scn = {"threads": threads, "urandom": src, "sched": sched}
        if long_history:
            scn["max_steps"] = 40_000_000
        return scn

    def shrink(self, scn):
        import copy
        th = scn["threads"]
        # drop a whole thread
        if len(th) > 1:
            for i in range(len(th)):
                c = copy.deepcopy(scn)
                del c["threads"][i]
                yield c
        # drop one op
        for i, ops in enumerate(th):
            for j in range(len(ops)):
                if len(ops) > 1:
                    c = copy.deepcopy(scn)
                    del c["threads"][i][j]
                    yield c
        # simplify ops
        for i, ops in enumerate(th):
            for j, op in enumerate(ops):
                if op[0] == "bulk" and op[1] > 1:
                    c = copy.deepcopy(scn)
                    c["threads"][i][j] = ["bulk", op[1] // 2]
                    yield c
                elif op[0] != "gen":
                    c = copy.deepcopy(scn)
                    c["threads"][i][j] = ["gen"]
                    yield c

    def nontrivial(self, res):
        return res.get("source_repeats", 0) > 0 or res.get("preempt_in_alloc", 0) > 0

    def sample(self, scn, res):
        return {"threads": scn["threads"], "urandom": scn["urandom"], "sched": scn["sched"],
                "outcome": res.get("summary")}

    def run(self, scn, tape_in=None):
        import importlib
        import_bromelia()
        from bromelia.base import DiameterRequest, DiameterAnswer, DiameterHeader
        sched = scn["sched"]
        sim = Sim(random.Random(scn["seed"]), tape_in=tape_in, quantum=sched.get("quantum", 1e-6),
                  max_steps=scn.get("max_steps", 1_500_000), horizon=1e8,
                  p_sync=sched["p_sync"], p_line=sched["p_line"],
                  opcode_funcs=ALLOC_FUNCS if sched.get("opcode") else (),
                  trace_root=bromelia_trace_root())
        src = AdversarialSource(scn["urandom"], sim)
        world = SimWorld(sim, urandom=src)
        world.install()
        expect_next = []
        created = []        # (thread, opindex, kind, hbh, e2e, explicit)
        errors = []
        violations = []
        # fresh registries for this run (a forked child is a fresh process as
        # far as the library is concerned; imports may have created messages)
        base_hbh = list(DiameterRequest.hop_by_hop_identifiers)
        base_e2e = list(DiameterRequest.end_to_end_identifiers)

        resolved = {}
        for table in (TYPED_REQUESTS, TYPED_ANSWERS):
            for mod, name, kw in table:
                resolved[(mod, name)] = getattr(importlib.import_module(mod), name)

        def klass(table, i):
            mod, name, kw = table[i]
            return resolved[(mod, name)], kw

        def worker(tid, ops):
            for oi, op in enumerate(ops):
                calls0 = src.by_thread.get(sim.cur.tid, 0)
                try:
                    kind = op[0]
                    explicit = False
                    given = None
                    if kind == "gc":
                        import gc
                        gc.collect()
                        continue
                    if kind == "idle":
                        sim.sleep(op[1])
                        continue
                    if kind == "clock_step":
                        sim.step_wall_clock(op[1])
                        continue
                    if kind == "bulk":
                        for _ in range(op[1]):
                            m = DiameterRequest()
                            if expect_next:
                                g = expect_next.pop(0)
                                if (m.header.hop_by_hop, m.header.end_to_end) != g:
                                    errors.append({"t": tid, "op": oi, "err": "RegistryAltered: identifiers carried by an explicit-header object "
                                                   "were no longer issuable afterwards (offered %s/%s, request got %s/%s)" % (
                                                       g[0].hex(), g[1].hex(), m.header.hop_by_hop.hex(), m.header.end_to_end.hex())})
                            created.append({"t": tid, "op": oi, "kind": "gen", "hbh": m.header.hop_by_hop,
                                            "e2e": m.header.end_to_end, "explicit": False, "given": None,
                                            "draws": 2, "step": sim.steps})
                        continue
                    if kind == "gen":
                        m = DiameterRequest()
                    elif kind == "typed":
                        c, kw = klass(TYPED_REQUESTS, op[1])
                        m = c(**kw)
                    elif kind == "ans":
                        c, kw = klass(TYPED_ANSWERS, op[1])
                        m = c(**kw)
                    elif kind == "gen_ans":
                        m = DiameterAnswer()
                    elif kind in ("hdr_req", "hdr_ans"):
                        h = DiameterHeader(hop_by_hop=op[1].to_bytes(4, "big"),
                                           end_to_end=op[2].to_bytes(4, "big"))
                        given = (h.hop_by_hop, h.end_to_end)
                        m = DiameterRequest(header=h) if kind == "hdr_req" else DiameterAnswer(header=h)
                        explicit = True
                    elif kind in ("hdr_reuse_bad", "gen_bad"):
                        prev = [c for c in created if c["kind"] in ("gen", "typed")]
                        reg0 = (len(DiameterRequest.hop_by_hop_identifiers), len(DiameterRequest.end_to_end_identifiers))
                        try:
                            if kind == "hdr_reuse_bad" and prev:
                                h = DiameterHeader(hop_by_hop=prev[-1]["hbh"], end_to_end=prev[-1]["e2e"])
                                DiameterRequest(header=h, avps=[object()])
                            elif kind == "hdr_reuse_bad":
                                continue
                            else:
                                DiameterRequest(avps=["not an AVP"])
                        except BaseException as e:      # noqa -- the failure itself is expected
                            if type(e).__name__ in ("SimStop", "SimHang"):
                                raise
                        if expect_next and len(src.inject) != 2 * len(expect_next):
                            # the failed construction drew (and thereby used up) identifiers this harness had
                            # queued in the random source to probe "still issuable": the probe is void
                            del src.inject[:]
                            del expect_next[:]
                        if kind == "hdr_reuse_bad" and len(scn["threads"]) == 1:
                            reg1 = (len(DiameterRequest.hop_by_hop_identifiers), len(DiameterRequest.end_to_end_identifiers))
                            if reg1 != reg0 or prev[-1]["hbh"] not in DiameterRequest.hop_by_hop_identifiers or \
                                    prev[-1]["e2e"] not in DiameterRequest.end_to_end_identifiers:
                                errors.append({"t": tid, "op": oi, "err": "RegistryAltered: a failed explicit-header construction changed the registries %s -> %s" % (reg0, reg1)})
                        continue
                    elif kind == "hdr_reuse":
                        prev = [c for c in created if c["kind"] in ("gen", "typed")]
                        if prev:
                            h = DiameterHeader(hop_by_hop=prev[-1]["hbh"], end_to_end=prev[-1]["e2e"])
                        else:
                            h = DiameterHeader(hop_by_hop=b"\x00\x00\x00\x07", end_to_end=b"\x00\x00\x00\x09")
                        given = (h.hop_by_hop, h.end_to_end)
                        m = DiameterRequest(header=h)
                        explicit = True
                    else:
                        raise ValueError(kind)
                    if kind in ("hdr_req", "hdr_ans") and len(scn["threads"]) == 1 and not src.inject:
                        issued_h = set(c["hbh"] for c in created if c["kind"] in ("gen", "typed"))
                        issued_e = set(c["e2e"] for c in created if c["kind"] in ("gen", "typed"))
                        if given[0] not in issued_h and given[1] not in issued_e and given[0] not in src.returned \
                                and given[1] not in src.returned:
                            src.inject.extend([given[0], given[1]])
                            expect_next.append(given)
                    elif kind in ("gen", "typed") and expect_next:
                        g = expect_next.pop(0)
                        if (m.header.hop_by_hop, m.header.end_to_end) != g:
                            errors.append({"t": tid, "op": oi, "err": "RegistryAltered: identifiers carried by an explicit-header object "
                                           "were no longer issuable afterwards (offered %s/%s, request got %s/%s)" % (
                                               g[0].hex(), g[1].hex(), m.header.hop_by_hop.hex(), m.header.end_to_end.hex())})
                    draws = src.by_thread.get(sim.cur.tid, 0) - calls0
                    created.append({"t": tid, "op": oi, "kind": kind, "hbh": m.header.hop_by_hop,
                                    "e2e": m.header.end_to_end, "explicit": explicit,
                                    "given": given, "draws": draws, "step": sim.steps})
                except BaseException as e:       # noqa
                    if type(e).__name__ in ("SimStop", "SimHang"):
                        raise
                    errors.append({"t": tid, "op": oi, "err": "%s: %s" % (type(e).__name__, e)})
            return True

        def main(sim):
            ths = [sim.spawn(worker, i, ops, role="T%d" % i) for i, ops in enumerate(scn["threads"])]
            idle_total = sum(op[1] for ops in scn["threads"] for op in ops if op[0] == "idle")
            for t in ths:
                while t.state != "done" and not sim.halted:
                    t.join(timeout=1.0 + idle_total)
            unfinished = [t.role for t in ths if t.state != "done"]
            if unfinished:
                violations.append({"clause": "termination", "sig": "C15/termination",
                                   "detail": {"unfinished": unfinished, "halt": sim.halt_reason,
                                              "urandom_calls": src.calls}})
            for e in errors:
                violations.append({"clause": "constructor-raised", "sig": "C15/constructor-raised:" + e["err"].split(":")[0],
                                   "detail": e})
            # uniqueness over requests created without explicit header
            for field in ("hbh", "e2e"):
                seen = {}
                for c in created:
                    if c["kind"] in ("gen", "typed"):
                        v = c[field]
                        if v in seen:
                            a = seen[v]
                            conc = a["t"] != c["t"]
                            violations.append({
                                "clause": "identifier reused (%s)" % field,
                                "sig": "C15/dup-%s/%s" % (field, "cross-thread" if conc else "same-thread"),
                                "detail": {"value": v.hex(), "first": {k: a[k] for k in ("t", "op", "kind", "step")},
                                           "second": {k: c[k] for k in ("t", "op", "kind", "step")},
                                           "urandom_mode": scn["urandom"]["mode"]}})
                            break
                        seen[v] = c
            # explicit header: exact ids carried, no draw
            for c in created:
                if c["explicit"]:
                    if (c["hbh"], c["e2e"]) != c["given"]:
                        violations.append({"clause": "explicit header ids altered", "sig": "C15/explicit-altered",
                                           "detail": {"t": c["t"], "op": c["op"], "kind": c["kind"]}})
                        break
                    if c["draws"]:
                        violations.append({"clause": "explicit header consumed identifiers", "sig": "C15/explicit-consumed",
                                           "detail": {"t": c["t"], "op": c["op"], "draws": c["draws"]}})
                        break
                elif c["kind"] in ("ans", "gen_ans") and c["draws"]:
                    violations.append({"clause": "answer consumed identifiers", "sig": "C15/answer-consumed",
                                       "detail": {"t": c["t"], "op": c["op"], "draws": c["draws"]}})
                    break
            # NOTE: earlier versions of this oracle also inspected DiameterRequest.hop_by_hop_identifiers /
            # end_to_end_identifiers (entry counts, "issued id is recorded").  That ties the verdict to one
            # bookkeeping structure; the behavioural clauses above (uniqueness under replaying sources and
            # collected objects, explicit-header ids still issuable, no draws) decide the property instead.
            return None

        sim.run_main(main)
        pre_alloc = sim.preempt_line + sim.preempt_opcode
        return base_result(sim, violations,
                           summary={"created": len(created), "urandom_calls": src.calls,
                                    "source_repeats": src.repeats, "threads": len(scn["threads"])},
                           extra={"source_repeats": src.repeats, "preempt_in_alloc": pre_alloc,
                                  "faults": {"urandom_repeat_value": src.repeats,
                                             "preemption_in_bromelia_code": pre_alloc}})


CHECK = C15()
