# -*- coding: utf-8 -*-
"""
World A -- one real bromelia ``Diameter`` node on the simulated OS, facing the
scripted reference peer (or a second real node).  Harness threads use the
public API only.
"""

import random

from simkit.kernel import Sim, SimThread, SimStop, BLOCKED, DONE, RUNNABLE
from simkit.net import NetConfig
from simkit.seams import SimWorld, bromelia_trace_root, import_bromelia
from ref import codec as C
from ref.peer import ScriptedPeer, History

NODE_HOST, NODE_REALM = "node.local", "realm.local"
PEER_HOST, PEER_REALM = "peer.remote", "realm.remote"
PORT = 3868
BY_HOST, BY_REALM = "by.local", "by.realm"
BYPEER_HOST, BYPEER_REALM = "bypeer.remote", "bypeer.realm"
BY_PORT = 3871

HOT_FUNCS = [
    "TcpConnection.read", "TcpConnection._read", "TcpConnection.write",
    "TcpConnection._write", "TcpConnection._run",
    "TcpConnection._set_selector_events_mask",
    "DiameterAssociation.recv_message_from_queue",
    "DiameterAssociation.get_message",
    "DiameterAssociation.get_postprocess_recv_message",
    "DiameterAssociation.close", "DiameterAssociation.send_message_from_queue",
    "DiameterAssociation.put_message_into_send_queue",
    "State.set_closed_state", "State.get_message",
    "State.notify_postprocess_message",
]

LIB_THREAD_NAMES = ("recv_message_monitor", "transport_layer_thread",
                    "client_psm_thread", "server_psm_thread")


def node_config(mode, apps=(), watchdog=30, port=PORT):
    return {
        "MODE": mode,
        "APPLICATIONS": [dict(a) for a in apps],
        "LOCAL_NODE_HOSTNAME": NODE_HOST,
        "LOCAL_NODE_REALM": NODE_REALM,
        "LOCAL_NODE_IP_ADDRESS": "127.0.0.1",
        "LOCAL_NODE_PORT": port,
        "PEER_NODE_HOSTNAME": PEER_HOST,
        "PEER_NODE_REALM": PEER_REALM,
        "PEER_NODE_IP_ADDRESS": "127.0.0.1",
        "PEER_NODE_PORT": port,
        "WATCHDOG_TIMEOUT": watchdog,
    }


def draw_knobs(rng, profile="fast"):
    """Per-run tuning knobs (swarm).  'fast' keeps the tick coarse so that a
    simulated second costs few steps; 'default' uses the shipped values."""
    if profile == "default":
        return {}
    k = {
        # the shipped tick is 0.1 ms: the state machine thread is then runnable almost all the time and
        # really races the transport thread; coarse ticks make a simulated second cheap. Draw both.
        "STATE_MACHINE_TICKER": rng.choice([0.0001, 0.0001, 0.0005, 0.002, 0.005, 0.01, 0.02, 0.05]),
        "SLEEP_TIMER": rng.choice([0.1, 0.3, 1.0, 4]),
        "TRACKING_SOCKET_EVENTS_TIMEOUT": rng.choice([0.2, 0.5, 1]),
        "SEND_BUFFER_MAXIMUM_SIZE": rng.choice([4096 * 64, 4096 * 64, 4096, 1200, 600]),
    }
    return k


def draw_stalls(rng, threads=("psm_thread", "transport_layer_thread", "recv_message_monitor"), span=400):
    """0..3 stalled-thread faults for a world-A run."""
    out = []
    for _ in range(rng.choice([0, 0, 1, 2, 3])):
        out.append({"thread": rng.choice(threads), "at": rng.randrange(0, span),
                    "dur": rng.choice([0.001, 0.01, 0.05, 0.2])})
    return out


SWAP_FUNCS = ["TcpConnection.write", "TcpConnection.write", "TcpConnection.write", "TcpConnection.read",
              "TcpConnection._set_selector_events_mask", "DiameterAssociation.send_message_from_queue", "TcpConnection._set_selector_events_mask",
              "TcpConnection.pop_recv_data_stream", "DiameterAssociation.recv_message_from_queue",
              "DiameterAssociation.send_message_from_queue", "DiameterAssociation.get_message",
              "DiameterAssociation.get_postprocess_recv_message", "DiameterAssociation.close",
              "State.set_closed_state", "PeerStateMachine.get_next_state", "TcpConnection.close", "TcpConnection._run"]


def draw_func_stalls(rng, funcs=None):
    """Function-entry anchored stalls: the k-th call of a function that touches shared state is
    descheduled j steps after entry for a while (about 60 % of the runs carry one or two)."""
    funcs = funcs or SWAP_FUNCS
    out = []
    for _ in range(rng.choice([0, 0, 1, 1, 1, 2])):
        out.append({"func": rng.choice(funcs), "call": rng.randrange(1, 5), "line": rng.randrange(0, 13),
                    "dur": rng.choice([0.005, 0.02, 0.1])})
    return out


def install_func_stalls(sim, stalls):
    for st in stalls or ():
        if st.get("after") is not None:
            ent = [None, st["line"], st["dur"], st["after"] + st.get("t0", 0.0)]
            if st.get("nth", 1) > 1:
                ent.append(st["nth"])
            sim.func_stalls.setdefault(st["func"], []).append(ent)
        else:
            sim.func_stalls.setdefault(st["func"], []).append([st["call"], st["line"], st["dur"]])


def draw_sched(rng, line=True):
    """Scheduling policy parameters for a run."""
    pol = rng.choice(["random", "random", "sticky", "line", "line", "opcode"])
    d = {"p_sync": 0.15, "p_line": 0.0, "opcode": False}
    if pol == "sticky":
        d["p_sync"] = rng.choice([0.01, 0.03])
    elif pol == "random":
        d["p_sync"] = rng.choice([0.1, 0.3, 0.5])
    elif pol == "line":
        d["p_sync"] = rng.choice([0.05, 0.2])
        d["p_line"] = rng.choice([0.001, 0.01, 0.05, 0.2])
    elif pol == "opcode":
        d["p_sync"] = rng.choice([0.05, 0.2])
        d["p_line"] = rng.choice([0.005, 0.02, 0.1])
        d["opcode"] = True
    d["policy"] = pol
    d["quantum"] = rng.choice([2e-7, 5e-7, 1e-6, 2e-6, 5e-6])
    return d


def draw_clock_jumps(rng, span=0.3, p=0.25):
    """Clock fault: the wall clock is stepped (NTP correction, VM resume) once or twice during the
    run; the monotonic clock, and therefore every timeout the simulator serves, is not."""
    if rng.random() >= p:
        return []
    return [{"t": rng.random() * span, "delta": rng.choice([-7200.0, -3600.0, -30.0, -2.0, 2.0, 45.0, 3600.0])}
            for _ in range(rng.choice([1, 1, 2]))]


def schedule_clock_jumps(sim, jumps):
    for j in jumps or ():
        sim.after(j["t"], lambda d=j["delta"]: sim.step_wall_clock(d))


def bystander_for(index, every=8, phase=6):
    """One run in `every` also carries a bystander node (see WorldA.start_bystander); decided by the
    run index alone so that the rest of the scenario stream is what it would be without it."""
    if index % every != phase:
        return None
    return {"n": 3 + (index // every) % 7, "gap": [0.0005, 0.003, 0.02][(index // every) % 3],
            "lead": [0.0, 0.05, 0.3][(index // (3 * every)) % 3],
            # every other bystander has the SAME local identity as the node under test (an application that talks
            # to two peers has one node object per peer, all with its own host name and realm); its peer also
            # sends watchdog requests, so that base answers are produced on both nodes at the same time
            "same_identity": (index // every) % 2 == 0, "dwr": True}


def bystander_cost(scn, quantum):
    """Simulated time the bystander's work may take away from the node under test (the simulated CPU is
    shared): to be added to liveness bounds."""
    b = scn.get("bystander")
    return (1.0 + b.get("lead", 0.0) + (2 * b["n"] + 8) * 40000 * quantum) if b else 0.0


class WorldA(object):
    """Everything needed for one run with one node and the scripted peer."""

    def __init__(self, scn, tape_in=None):
        """scn: JSON-able scenario dict with keys seed, sched, knobs, net,
        mode, apps, watchdog, peer (behaviour)."""
        import_bromelia()
        self.scn = scn
        rng = random.Random(scn["seed"])
        sched = scn["sched"]
        self.sim = Sim(rng, tape_in=tape_in,
                       quantum=sched.get("quantum", 2e-6),
                       max_steps=int(scn.get("max_steps", 6_000_000) * (1.8 if scn.get("bystander") else 1)),
                       horizon=scn.get("horizon", 120.0),
                       p_sync=sched.get("p_sync", 0.15),
                       p_line=sched.get("p_line", 0.0),
                       opcode_funcs=HOT_FUNCS if sched.get("opcode") else (),
                       trace_root=bromelia_trace_root(),
                       pure_line_cap=scn.get("pure_line_cap", 400_000))
        netcfg = NetConfig(**scn.get("net", {}))
        self.world = SimWorld(self.sim, netcfg=netcfg, knobs=scn.get("knobs"),
                              urandom_seed=scn["seed"] ^ 0x5EED)
        self.world.install()
        self.net = self.world.net
        self.hist = History(self.sim)
        self.mode = scn.get("mode", "CLIENT")
        self.peer = ScriptedPeer(self.sim, self.net, PEER_HOST, PEER_REALM,
                                 NODE_HOST, NODE_REALM, self.hist,
                                 behaviour=scn.get("peer"))
        from bromelia.setup import Diameter
        self.node = Diameter(config=node_config(self.mode, scn.get("apps", ()),
                                                scn.get("watchdog", 30)))
        self.abstract_states = set()
        self.by_rec = None
        _orig_add = self.hist.add

        def _add(kind, **kw):
            ev = _orig_add(kind, **kw)
            self.sample()
            return ev
        self.hist.add = _add
        # invariant "Closed implies released", checked at every context switch (see closed_implies_released)
        self.invariant_violations = []
        self.ignore_socks = set()
        self._obs = {"psm": None, "left_closed": False, "reported": False}
        self.sim.observers.append(self.closed_implies_released)
        self.delivered = []       # (seq, msg) returned by get_message()
        self.consumers = []
        self.api_calls = []       # records of API calls made by harness threads
        self.addr = ("127.0.0.1", PORT)
        if self.mode == "CLIENT":
            self.peer.listen(self.addr)
        else:
            self.net.listen_hooks.append(self._node_listening)
        self.server_connect_delay = scn.get("server_connect_delay", 0.001)
        self.auto_peer_cer = scn.get("auto_peer_cer", True)
        self.cer_ids = (scn.get("cer_hbh", 0x11), scn.get("cer_e2e", 0x22))

    # ---- server role: the peer connects once the node listens ----------
    def _node_listening(self, sock):
        if not self.scn.get("peer_connects", True) or sock.addr != self.addr:
            return
        def go():
            self.peer.connect(self.addr, then=self._peer_connected)
        self.sim.after(self.server_connect_delay, go)

    def _peer_connected(self, peer):
        if self.auto_peer_cer:
            peer.send(C.cer(PEER_HOST, PEER_REALM, hbh=self.cer_ids[0], e2e=self.cer_ids[1]))

    # ---- API calls from harness threads ----------------------------------
    def call(self, role, fn, *args, **kw):
        """Run fn(*args) in a fresh harness thread; record outcome."""
        rec = {"role": role, "fn": getattr(fn, "__name__", str(fn)),
               "t0": self.sim.now, "t1": None, "ok": None, "exc": None, "ret": None}
        self.api_calls.append(rec)

        def body():
            try:
                rec["ret"] = fn(*args, **kw)
                rec["ok"] = True
            except SimStop:
                raise
            except BaseException as e:      # library errors derive from BaseException
                rec["ok"] = False
                rec["exc"] = "%s: %s" % (type(e).__name__, e)
            rec["t1"] = self.sim.now
        rec["thread"] = self.sim.spawn(body, role="N:" + role)
        return rec

    def apply_stalls(self, stalls):
        """Stalled-thread faults: {"thread": role substring, "at": k, "dur": d} --
        the first live thread whose role contains the substring is descheduled
        for d simulated seconds once it has executed k more steps."""
        n = 0
        for st in stalls or ():
            for t in self.sim.threads:
                if st["thread"] in t.role and t.state not in ("done", "new") and not t.group:
                    plan = [p for p in (t.stall_plan or []) if p[0] < (1 << 59)]
                    plan.append((t.steps + st["at"], st["dur"]))
                    t.stall_plan = sorted(plan)
                    n += 1
                    break
        return n

    def start_node(self):
        return self.call("start", self.node.start)

    def maybe_bystander(self):
        """Starts the bystander if the scenario has one."""
        b = self.scn.get("bystander")
        if not b or self.by_rec is not None:
            return
        self.start_bystander(n=b["n"], gap=b["gap"])
        if b.get("lead"):
            self.sim.sleep(b["lead"])

    def start_bystander(self, n=8, gap=0.004):
        """A second, independent real Diameter node in the same process (other identity, other peer,
        other port) that opens a connection and exchanges application traffic with its own scripted
        peer while the node under test runs.  Nothing about the bystander is judged; but whatever of
        it shows up at the node under test -- or disappears from it -- through state shared by all
        objects of a class or module breaks that node's oracles.  Its threads and sockets carry the
        group tag "by" and are left out of lib_threads() / node_socks() / stall targeting."""
        sim = self.sim
        hist2 = History(sim)
        b = self.scn.get("bystander") or {}
        by_host, by_realm = (NODE_HOST, NODE_REALM) if b.get("same_identity") else (BY_HOST, BY_REALM)
        peer2 = ScriptedPeer(sim, self.net, BYPEER_HOST, BYPEER_REALM, by_host, by_realm, hist2, name="bypeer")
        peer2.listen(("127.0.0.1", BY_PORT))
        self.by_peer = peer2
        apps = self.scn.get("apps", ())
        app_id = (apps[0].get("app-id") if apps else None) or 16777251

        def body():
            sim.cur.group = "by"
            from bromelia.setup import Diameter
            from bromelia.base import DiameterRequest, DiameterAVP
            from bromelia.avps import SessionIdAVP, OriginHostAVP, OriginRealmAVP, DestinationRealmAVP
            cfg = node_config("CLIENT", apps, 30, BY_PORT)
            cfg.update({"LOCAL_NODE_HOSTNAME": by_host, "LOCAL_NODE_REALM": by_realm,
                        "PEER_NODE_HOSTNAME": BYPEER_HOST, "PEER_NODE_REALM": BYPEER_REALM})
            node2 = Diameter(config=cfg)
            self.by_node = node2
            node2.start()
            if not sim.wait_until(lambda: node2.get_current_state() == "I-Open", 20.0, poll=0.002):
                return "not-open"
            sim.probe("bystander_open")
            got = []

            def consume():
                while True:
                    m = node2.get_message()
                    if m is None:
                        return
                    got.append(m)
            sim.spawn(consume, role="N:by_consumer")
            for k in range(n):
                hb = 0x62000000 + k
                peer2.send(C.app_request(app_id, 316, hb, hb, "bypeer;9;%d" % k, BYPEER_HOST, BYPEER_REALM, by_realm))
                if b.get("dwr"):
                    peer2.send(C.dwr(BYPEER_HOST, BYPEER_REALM, hbh=0x63000000 + k, e2e=0x64000000 + k))
                m = DiameterRequest(application_id=app_id, command_code=316,
                                    avps=[SessionIdAVP(("by;9;%d" % k).encode()), OriginHostAVP(by_host),
                                          OriginRealmAVP(by_realm), DestinationRealmAVP(BYPEER_REALM),
                                          DiameterAVP(code=9901, data=b"bystander-%03d" % k)])
                node2.send_message(m)
                sim.sleep(gap)
            sim.probe("bystander_done")
            return "done"
        self.by_rec = self.call("bystander", body)
        return self.by_rec

    def start_consumer(self, name="consumer", on_msg=None):
        # a consumer belongs to ONE connection: it keeps calling get_message() on the association
        # that was current when it started (Diameter.get_message() is a one-line delegation to it);
        # otherwise a consumer that outlives an eager restart would start waiting on the NEXT
        # connection and look "stuck"
        assoc = self.node._association

        def loop():
            while True:
                m = assoc.get_message() if assoc is not None else self.node.get_message()
                self.hist.add("app_rx", raw=m.dump() if m is not None else None)
                if m is None:
                    # get_message returns None once the association stops
                    return "stopped"
                self.delivered.append(m)
                if on_msg is not None:
                    on_msg(m)
        rec = self.call(name, loop)
        self.consumers.append(rec)
        return rec

    def sample(self):
        """Abstract state of the node, read from plain attributes only (no
        bromelia code is executed: this also runs in event context)."""
        try:
            psm = self.node._peer_state_machine
            a = self.node._association
            tr = getattr(a, "transport", None) if a is not None else None
            tup = (self.mode[0],
                   type(psm.current_state).__name__ if psm is not None else "-",
                   getattr(tr, "events_mask", "-") if tr is not None else "-",
                   bool(getattr(tr, "_send_buffer", b"")) if tr is not None else "-",
                   bool(getattr(tr, "data_stream", b"")) if tr is not None else "-",
                   bool(getattr(tr, "_recv_data_stream", b"")) if tr is not None else "-",
                   bool(len(a._send_messages.queue)) if a is not None else "-",
                   bool(len(a._recv_messages.queue)) if a is not None else "-",
                   bool(len(a.postprocess_recv_messages.queue)) if a is not None else "-",
                   bool(getattr(a, "_recv_pending", b"")) if a is not None else "-",
                   bool(getattr(a, "_stop_threads", False)) if a is not None else "-",
                   bool(getattr(tr, "_stop_threads", False)) if tr is not None else "-",
                   tuple(sorted((t.role.split(":")[-1].split("#")[0], t.state[0]) for t in self.sim.threads if t.library and not t.group)))
            self.abstract_states.add(repr(tup))
        except Exception:       # sampling must never disturb a run
            pass

    def closed_implies_released(self):
        """Invariant evaluated at every context switch: once a connection's state machine has left Closed and
        reports Closed again, every socket the node created is closed and unregistered AT THAT INSTANT -- another
        thread that sees Closed (is_closed(), get_current_state()) may rely on the release having happened.
        A node that has not left Closed yet (a server awaiting its client, a client about to connect) is not
        concerned.  Plain attribute reads only; the reported state is the class of current_state, exactly what
        PeerStateMachine.get_current_state() looks at."""
        try:
            psm = self.node._peer_state_machine
            ob = self._obs
            if psm is None:
                return
            if psm is not ob["psm"]:
                ob["psm"], ob["left_closed"], ob["reported"] = psm, False, False
            name = type(psm.current_state).__name__
            if name != "Closed":
                ob["left_closed"] = True
                return
            if not ob["left_closed"] or ob["reported"]:
                return
            open_socks = [s for s in self.net.sockets
                          if s.owner == "node" and not s.group and (s.state != "closed" or s.selectors)
                          and s not in self.ignore_socks]
            if open_socks:
                ob["reported"] = True
                self.invariant_violations.append({
                    "t": self.sim.now, "step": self.sim.steps,
                    "sockets": [(s.name, s.state, bool(s.selectors)) for s in open_socks],
                    "switching_from": self.sim.cur.role if self.sim.cur else None})
                self.sim.probe("closed_before_release_seen")
        except Exception:       # an observer must never disturb a run
            pass

    def state(self):
        self.sample()
        return self.node.get_current_state()

    def wait_state(self, states, timeout):
        if isinstance(states, str):
            states = (states,)
        return self.sim.wait_until(lambda: self.state() in states, timeout)

    def is_open(self):
        return self.state() in ("I-Open", "R-Open")

    def lib_threads(self):
        return [t for t in self.sim.threads if t.library and not t.group]

    def node_socks(self):
        return [s for s in self.net.sockets if s.owner == "node" and not s.group]

    def node_tx_messages(self, sock=None):
        """Decode everything the node wrote on its (current or given) data
        socket.  Returns (messages, framer)."""
        fr = C.Framer()
        s = sock or (self.peer.sock.peer if self.peer.sock else None)
        if s is None:
            return [], fr
        msgs = fr.feed(bytes(s.tx_bytes))
        return msgs, fr
