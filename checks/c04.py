# -*- coding: utf-8 -*-
"""
C04 -- Inbound messages are delivered once, in order, however the stream is
fragmented.

World A.  The node is brought to Open through the simulated network, then the
scripted peer sends uniquely tagged application messages (interleaved with
DWR/DWA) as byte streams cut at seeded points -- one byte at a time, inside
the 20-byte header, inside AVP headers, exactly on boundaries, many messages
coalesced -- with independently delayed segments.  One application consumer
loops on get_message().
"""

import copy
import random

from simkit.driver import Check, base_result
from ref import codec as C
from checks.worlda import (WorldA, draw_stalls, install_func_stalls, draw_clock_jumps, schedule_clock_jumps, bystander_for, bystander_cost, draw_knobs, draw_sched, NODE_HOST, NODE_REALM,
                           PEER_HOST, PEER_REALM)

TAG = 99999
APP_ID = 16777251
HANDOVER_FUNCS = ["DiameterAssociation.get_message", "DiameterAssociation.get_postprocess_recv_message",
                  "DiameterAssociation.get_postprocess_recv_message", "State.notify_postprocess_message",
                  "State.get_message", "DiameterAssociation.recv_message_from_queue", "TcpConnection.read",
                  "TcpConnection.pop_recv_data_stream", "Open.run"]


def build_msg(spec, idx):
    """spec -> reference message dict (deterministic from the spec)."""
    if spec.get("target_len") and spec["kind"] in ("app_req", "app_ans"):
        # size boundary: the encoded message is EXACTLY target_len bytes long (pad AVP = 8 bytes of header +
        # data; targets are multiples of 4)
        base_len = len(C.enc_msg(build_msg(dict(spec, target_len=None, pad=0), idx)))
        want = spec["target_len"] - base_len - 8
        if want >= 1:
            spec = dict(spec, target_len=None, pad=want)
    if spec.get("shape") and spec["kind"] in ("app_req", "app_ans"):
        # legal but unusual shapes: T (retransmission) / E (error) header bits, P clear, AVPs in an unusual
        # order, the same AVP twice, very many tiny AVPs with data lengths 0..3 (every padding case)
        sh = spec["shape"]
        m = build_msg(dict(spec, shape=None), idx)
        if sh.get("tbit") and spec["kind"] == "app_req":
            m["flags"] |= 0x10
        if sh.get("ebit") and spec["kind"] == "app_ans":
            m["flags"] |= 0x20
        if sh.get("nop"):
            m["flags"] &= ~0x40
        avps = list(m["avps"])
        if sh.get("dup"):
            avps.append(avps[sh["dup"] % len(avps)])
        for j in range(sh.get("small", 0)):
            avps.append((TAG + 2 + (j % 5), 0, None, bytes((idx + j + i) & 0xFF for i in range(j % 4))))
        if sh.get("shuffle") is not None:
            random.Random(sh["shuffle"]).shuffle(avps)
        m["avps"] = avps
        return m
    k = spec["kind"]
    hbh = 0x20000000 + idx
    e2e = 0x30000000 + idx
    tag = ("m%04d" % idx).encode()
    pad = bytes((idx + i) & 0xFF for i in range(spec.get("pad", 0)))
    extra = [(TAG, 0, None, tag)]
    if pad:
        extra.append((TAG + 1, 0, None, pad))
    if k == "app_req":
        return C.app_request(APP_ID, spec.get("code", 316), hbh, e2e, "peer;1;%d" % idx,
                             PEER_HOST, PEER_REALM, NODE_REALM,
                             dhost=NODE_HOST if spec.get("dhost") else None, extra=extra)
    if k == "app_ans":
        return C.app_answer(APP_ID, spec.get("code", 316), hbh, e2e, "peer;1;%d" % idx,
                            PEER_HOST, PEER_REALM, extra=extra)
    if k == "dwr":
        return C.dwr(PEER_HOST, PEER_REALM, hbh=hbh, e2e=e2e)
    if k == "dwa":
        return C.dwa(PEER_HOST, PEER_REALM, hbh=hbh, e2e=e2e)
    if k == "bad":
        # well framed, but the decoder rejects it (3-byte Result-Code): it must vanish alone
        m = C.app_answer(APP_ID, 316, hbh, e2e, "peer;1;%d" % idx, PEER_HOST, PEER_REALM, extra=extra)
        m["avps"] = [a if a[0] != C.RESULT_CODE else (C.RESULT_CODE, C.AF_M, None, b"\x00\x07\xd1") for a in m["avps"]]
        return m
    raise ValueError(k)


def msg_key_ref(m):
    return (m["code"], m["app"], m["hbh"], m["e2e"], bool(m["flags"] & C.F_R),
            tuple((a[0], a[2], bytes(a[3])) for a in m["avps"]))


def msg_key_lib(m):
    h = m.header
    avps = []
    for a in m.avps:
        vid = a.vendor_id
        avps.append((int.from_bytes(a.code, "big"),
                     int.from_bytes(vid, "big") if vid is not None else None,
                     bytes(a.data)))
    return (int.from_bytes(h.command_code, "big"), int.from_bytes(h.application_id, "big"),
            int.from_bytes(h.hop_by_hop, "big"), int.from_bytes(h.end_to_end, "big"),
            h.is_request(), tuple(avps))


class C04(Check):
    prop = "C04"
    quick_runs = 128
    thorough_runs = 3000
    run_wall = 600.0
    rule = ("one run = a live node brought to Open, then a sequence of <= 40 uniquely tagged application messages and "
            "DWR/DWA sent by the scripted peer in bursts, each burst one byte stream cut at seeded offsets (incl. every "
            "byte, inside headers, on boundaries, coalesced) with seeded per-segment delays, under a seeded schedule of "
            "transport reader / receive worker / state machine / consumer (sync-op, source-line and bytecode "
            "pre-emption); distinct = distinct schedule signature; non-trivial = at least one message was split across "
            "segments or at least two messages were coalesced into one segment")
    components_real = ["Diameter", "DiameterAssociation (recv_message_from_queue, get_message)", "PeerStateMachine + State classes",
                       "TcpClient/TcpServer/TcpConnection (_run/read/_read)", "DiameterMessage.load", "BaseMessageProcessor"]
    components_stub = ["OS sockets/selectors/threads/clock (simkit)", "remote peer (ref.peer.ScriptedPeer with ref.codec)"]
    assumptions = ["TCP semantics: bytes arrive in order, without loss or duplication, in arbitrary segments",
                   "a single application consumer calls get_message()",
                   "liveness bound D = 3 s + 4 ticks per message after the last segment has been delivered"]

    # ------------------------------------------------------------------
    def gen_scenario(self, rng, tier, index):
        sweep = (index % 8 == 7)
        n = rng.randint(1, 12 if tier == "quick" else 40)
        big = (index % 16 == 5)
        if big:
            # count boundary: a long run of small messages, coalesced, possibly before the consumer starts
            n = rng.choice([70, 130, 300])
        if sweep:
            n = rng.choice([2, 3])
        msgs = []
        for i in range(n):
            x = rng.random()
            if x < 0.45:
                kind = "app_req"
            elif x < 0.75:
                kind = "app_ans"
            elif x < 0.90:
                kind = "dwr"
            elif x < 0.95:
                kind = "dwa"
            else:
                kind = "bad"
            pad = rng.choice([0, 0, 0, 1, 2, 3, 17, 200, 1500]) if kind.startswith("app") else 0
            if big:
                pad = 0
            if rng.random() < 0.03 and tier != "quick":
                pad = 70000
            msgs.append({"kind": kind, "pad": pad, "dhost": rng.random() < 0.5,
                         "code": rng.choice([316, 318, 321, 272])})
        # bursts: partition of message indices
        bursts = []
        i = 0
        t = 0.0
        while i < n:
            k = rng.choice([1, 1, 2, 3, 5, n])
            idxs = list(range(i, min(n, i + k)))
            i += len(idxs)
            style = rng.choice(["whole", "whole", "bytewise", "header", "random", "random", "boundaries", "aligned"])
            bursts.append({"msgs": idxs, "style": style, "ncuts": rng.choice([1, 2, 3, 6]),
                           "cutseed": rng.getrandbits(30), "gap": rng.choice([0.0, 0.0002, 0.002, 0.02, 0.3]),
                           "at": t})
            t += rng.choice([0.0, 0.001, 0.01, 0.1, 1.2])
        if index % 16 == 9:
            # size boundary: a burst whose total length is an exact multiple of 4096, delivered in 4096-byte reads
            n = rng.choice([4, 8, 12])
            msgs = [{"kind": "app_req", "pad": 0, "dhost": False, "code": 316} for _ in range(n)]
            bursts = [{"msgs": list(range(n)), "style": "aligned4096", "gap": rng.choice([0.002, 0.02]), "at": 0.0}]
        if sweep:
            bursts = [{"msgs": list(range(n)), "style": "sweep",
                       "pos": (index // 8) if tier == "thorough" else rng.getrandbits(30),
                       "pos2": rng.getrandbits(30) if rng.random() < 0.5 else None,
                       "gap": rng.choice([0.0005, 0.01, 0.3]), "at": 0.0}]
        mode = rng.choice(["CLIENT", "SERVER"])
        pairs = (index % 8 == 3)
        if pairs:
            # hand-over sweep: P pairs of messages, the pairs 5 s apart (longer than any polling interval of the
            # node), the second message of a pair 50 ms behind the first.  A thread entering one of the hand-over
            # functions after the first message of pair p has arrived is descheduled j_p steps after entry for
            # 0.2 s, so that the second message goes through the other threads exactly then.  Every message must
            # reach the parked consumer within D_local of its arrival (see the oracle), not only by the end.
            P = rng.choice([8, 12, 16])
            msgs = [{"kind": rng.choice(["app_req", "app_ans"]), "pad": rng.choice([0, 0, 17]), "dhost": False,
                     "code": rng.choice([316, 318])} for _ in range(2 * P)]
            bursts = []
            for p_ in range(P):
                bursts.append({"msgs": [2 * p_], "style": "whole", "ncuts": 1, "cutseed": 0, "gap": 0.0, "at": 5.0 * p_})
                bursts.append({"msgs": [2 * p_ + 1], "style": "whole", "ncuts": 1, "cutseed": 0, "gap": 0.0, "at": 5.0 * p_ + 0.05})
        if big:
            bursts = [{"msgs": list(range(n)), "style": rng.choice(["whole", "boundaries", "random"]), "ncuts": 3,
                       "cutseed": rng.getrandbits(30), "gap": 0.0, "at": 0.0}]
        return self._later_additions(rng, index, sweep or big or pairs, {"mode": mode, "pairs": pairs, "msgs": msgs, "bursts": bursts, "max_steps": 6_000_000 + 30000 * n,
                "bystander": bystander_for(index),
                "consumer_early": rng.random() < 0.5,
                # the peer ends the connection with a DPR right behind its last message: everything it sent
                # before must still reach the application (an eager consumer is running)
                "end_with_dpr": rng.random() < 0.2,
                "outbound": rng.choice([0, 0, 2, 5]),
                "sched": draw_sched(rng), "knobs": draw_knobs(rng),
                "net": {"max_latency": rng.choice([0.0005, 0.003, 0.02])},
                "watchdog": 30, "horizon": 120.0})

    @staticmethod
    def _later_additions(rng, index, special, scn):
        # later additions draw from a generator of their own (the stream above stays what it was)
        rng2 = random.Random(rng.getrandbits(48))
        scn["clock_jumps"] = draw_clock_jumps(rng2, span=0.3, p=0.15)
        if not special and rng2.random() < 0.3:
            for m_ in scn["msgs"]:
                if m_["kind"] in ("app_req", "app_ans") and rng2.random() < 0.5:
                    m_["shape"] = {"tbit": rng2.random() < 0.3, "ebit": rng2.random() < 0.3, "nop": rng2.random() < 0.3,
                                   "dup": rng2.choice([None, None, 0, 1, 2, 3]), "small": rng2.choice([0, 0, 3, 40, 150]),
                                   "shuffle": rng2.choice([None, rng2.getrandbits(20)])}
        if not special and rng2.random() < 0.25:
            # size boundaries: one or two messages are exactly 2^k (or 2^k +- 4) bytes long
            for _ in range(rng2.choice([1, 2])):
                m_ = rng2.choice(scn["msgs"])
                if m_["kind"] in ("app_req", "app_ans"):
                    m_["target_len"] = rng2.choice([252, 256, 260, 1020, 1024, 4092, 4096, 4100, 8192, 65532, 65536, 65540, 131072])
        if not special and rng2.random() < 0.2:
            # a slow sender: the pieces of one message arrive SECONDS apart (longer than any polling interval
            # or wait timeout inside the node); coarse ticks keep those seconds cheap
            b = rng2.choice(scn["bursts"])
            if b["style"] not in ("aligned4096", "sweep"):
                b["style"] = "random"
                b["ncuts"] = rng2.choice([1, 1, 2])
                b["long_gap"] = rng2.choice([1.15, 1.6, 2.6, 5.0])
                later = 0.0
                for o in scn["bursts"]:
                    if o["at"] > b["at"]:
                        # what follows comes after the slow message (same stream, so it cannot overtake it anyway)
                        later = max(later, 3 * b["long_gap"])
                        o["at"] += 3 * b["long_gap"]
                scn["knobs"]["STATE_MACHINE_TICKER"] = max(scn["knobs"]["STATE_MACHINE_TICKER"], 0.002)
        # stalled-thread faults on the inbound path: a library thread (or the consumer) is descheduled for a while
        # at a step of its own, or j steps after entering -- for the k-th time, k up to the number of messages --
        # one of the functions that hand bytes / messages from one thread to the next
        rng3 = random.Random(rng2.getrandbits(48))
        # the application rewrites the messages it has been given (they are its own from delivery on)
        scn["scribble"] = rng3.random() < 0.3
        scn["stalls"] = []
        scn["func_stalls"] = []
        if scn.get("pairs"):
            scn["bystander"] = None
            scn["consumer_early"] = True
            scn["end_with_dpr"] = False
            scn["clock_jumps"] = []
            scn["knobs"]["STATE_MACHINE_TICKER"] = rng3.choice([0.002, 0.005, 0.01, 0.02])
            scn["sched"]["quantum"] = min(scn["sched"].get("quantum", 2e-6), 2e-6)
            scn["net"]["max_latency"] = min(scn["net"]["max_latency"], 0.003)
            scn["horizon"] = 200.0
            # the consumer positions are tiled over the run indices (not drawn), as fractions of the function's measured
            # length: where the critical window of a given implementation lies depends on the scenario (tracing
            # granularity, message shape), so positions are placed along a fault-free baseline of the same run
            kk = index // 8
            depth2 = (kk % 4 != 3)
            scn["pairs_depth2"] = depth2
            for p_ in range(len(scn["msgs"]) // 2):
                after = 5.0 * p_ + 0.0001
                if depth2 and p_ == 0:
                    continue        # baseline pair: no fault, the hand-over functions are measured
                if depth2:
                    # depth two: both messages of the pair arrive in ONE segment; the state machine thread is descheduled
                    # as it enters the hand-over of the SECOND message (which it has already taken from the receive
                    # queue), the consumer is descheduled once before it takes its lock and once more at line j of the
                    # hand-over function (j swept) -- producer "about to publish" x every consumer position
                    scn["func_stalls"].append({"func": "State.notify_postprocess_message", "call": None, "after": after, "nth": 2,
                                               "line": rng3.randrange(0, 3), "dur": 0.15})
                    fc = "DiameterAssociation.get_message" if (kk // 16) % 4 == 3 else "DiameterAssociation.get_postprocess_recv_message"
                    # position = a fraction of the function's length as measured on the calls of this very run that
                    # had no fault in them (the first pair carries none); the fractions of all pairs of all runs form a
                    # low-discrepancy sequence over [0, 1)
                    jc = ((16 * kk + p_) * 0.6180339887498949) % 1.0
                    scn["func_stalls"].append({"func": fc, "call": None, "after": after, "line": 0, "dur": 0.05})
                    scn["func_stalls"].append({"func": fc, "call": None, "after": after, "line": jc, "dur": 0.3})
                else:
                    scn["func_stalls"].append({"func": rng3.choice(HANDOVER_FUNCS[:5]), "call": None, "after": after,
                                               "line": rng3.randrange(0, 48), "dur": 0.2})
            if depth2:
                for b_ in scn["bursts"]:
                    if b_["msgs"][0] % 2 == 1:
                        b_["at"] -= 0.05        # second message of the pair: same instant as the first
                merged = []
                for b_ in scn["bursts"]:
                    if merged and abs(merged[-1]["at"] - b_["at"]) < 1e-9:
                        merged[-1]["msgs"] = merged[-1]["msgs"] + b_["msgs"]
                    else:
                        merged.append(b_)
                scn["bursts"] = merged
        if not special and rng3.random() < 0.5:
            scn["stalls"] = draw_stalls(rng3, threads=("psm_thread", "transport_layer_thread", "recv_message_monitor", "consumer"),
                                        span=2000)
            napp = max(1, sum(1 for m_ in scn["msgs"] if m_["kind"].startswith("app")))
            for _ in range(rng3.choice([1, 2, 3, 4])):
                scn["func_stalls"].append({
                    "func": rng3.choice(HANDOVER_FUNCS), "call": rng3.randrange(1, napp + 3),
                    "line": rng3.randrange(0, 14), "dur": rng3.choice([0.002, 0.02, 0.1, 0.4])})
        if scn.get("end_with_dpr"):
            # the peer closes right behind its last message: what the application has not picked up when the linger
            # is over goes down with the connection, so a consumer descheduled for longer than the linger proves
            # nothing -- no stall faults on the application side in these runs
            scn["stalls"] = [x for x in scn["stalls"] if x["thread"] != "consumer"]
            scn["func_stalls"] = [x for x in scn["func_stalls"] if x["func"] not in (
                "DiameterAssociation.get_message", "DiameterAssociation.get_postprocess_recv_message")]
        return scn

    def shrink(self, scn):
        for k_ in ("stalls", "func_stalls"):
            for i in range(len(scn.get(k_) or ())):
                c = copy.deepcopy(scn)
                del c[k_][i]
                yield c
        n = len(scn["msgs"])
        # drop a message (re-index bursts)
        for i in range(n):
            if n <= 1:
                break
            c = copy.deepcopy(scn)
            del c["msgs"][i]
            nb = []
            for b in c["bursts"]:
                idxs = [j if j < i else j - 1 for j in b["msgs"] if j != i]
                if idxs:
                    b["msgs"] = idxs
                    nb.append(b)
            c["bursts"] = nb
            yield c
        for bi, b in enumerate(scn["bursts"]):
            if b["style"] not in ("whole", "sweep"):
                c = copy.deepcopy(scn)
                c["bursts"][bi]["style"] = "whole"
                yield c
            if b.get("gap"):
                c = copy.deepcopy(scn)
                c["bursts"][bi]["gap"] = 0.0
                yield c
        if len(scn["bursts"]) > 1:
            c = copy.deepcopy(scn)
            allm = [j for b in c["bursts"] for j in b["msgs"]]
            c["bursts"] = [dict(c["bursts"][0], msgs=allm)]
            yield c
        for i, m in enumerate(scn["msgs"]):
            if m.get("pad"):
                c = copy.deepcopy(scn)
                c["msgs"][i]["pad"] = 0
                yield c
        if scn.get("outbound"):
            c = copy.deepcopy(scn)
            c["outbound"] = 0
            yield c

    def nontrivial(self, res):
        return res.get("split_msgs", 0) > 0 or res.get("coalesced", 0) > 0

    def sample(self, scn, res):
        return {"mode": scn["mode"], "msgs": scn["msgs"][:12], "bursts": scn["bursts"][:6],
                "sched": scn["sched"], "knobs": scn["knobs"], "outcome": res.get("summary")}

    # ------------------------------------------------------------------
    @staticmethod
    def cuts_for(burst, encs):
        total = sum(len(e) for e in encs)
        style = burst["style"]
        r = random.Random(burst.get("cutseed", 0))
        if style == "whole" or total < 2:
            return []
        if style == "bytewise":
            # byte-by-byte over (a prefix of) the stream
            lim = min(total, 600)
            return list(range(1, lim))
        bounds = []
        off = 0
        for e in encs:
            bounds.append(off)
            off += len(e)
        if style == "boundaries":
            return [b for b in bounds if b > 0]
        if style == "aligned4096":
            return [c for c in range(4096, total, 4096)]
        if style == "aligned":
            # segments that are exact multiples of a power of two (read-size boundaries)
            q = r.choice([4096, 4096, 1024, 8192, 65536])
            return [c for c in range(q, total, q)]
        if style == "header":
            out = []
            for b in bounds:
                out.append(b + r.randrange(1, 20))
                if r.random() < 0.5:
                    out.append(b + 20 + r.randrange(0, 12))
            return sorted(set(c for c in out if 0 < c < total))
        if style == "sweep":
            out = [1 + burst["pos"] % (total - 1)]
            if burst.get("pos2") is not None:
                out.append(1 + burst["pos2"] % (total - 1))
            return sorted(set(out))
        k = burst.get("ncuts", 2)
        return sorted(set(r.randrange(1, total) for _ in range(k)))

    def run(self, scn, tape_in=None):
        # (parsing a burst of messages with hundreds of AVPs is a long pure computation: lift the hang cap)
        w = WorldA(dict(scn, pure_line_cap=4_000_000), tape_in)
        sim = w.sim
        violations = []
        tick = w.world.knobs["STATE_MACHINE_TICKER"]
        if any(b["style"] == "aligned4096" for b in scn["bursts"]):
            scn = dict(scn, msgs=[dict(m) for m in scn["msgs"]])
            for i, m in enumerate(scn["msgs"]):
                base_len = len(C.enc_msg(build_msg(dict(m, pad=0), i)))
                # pad AVP costs 8 bytes of header + data rounded up to 4: make the message exactly 1024 bytes
                m["pad"] = 1024 - base_len - 8
        refs = [build_msg(s, i) for i, s in enumerate(scn["msgs"])]
        encs = [C.enc_msg(m) for m in refs]
        n = len(refs)
        # liveness bound: polling intervals plus the simulated CPU time the node
        # needs to parse and tick through n messages (every step costs a quantum)
        D = 3.0 + 4 * n * tick + w.world.knobs["TRACKING_SOCKET_EVENTS_TIMEOUT"] + n * 40000 * sim.quantum + \
            bystander_cost(scn, sim.quantum) + \
            sum(x["dur"] for x in (scn.get("stalls") or [])) + sum(x["dur"] for x in (scn.get("func_stalls") or []))
        stats = {"split_msgs": 0, "coalesced": 0, "segments": 0, "delivered": 0, "opened": False}
        expected = [msg_key_ref(m) for m, s in zip(refs, scn["msgs"]) if s["kind"].startswith("app")]

        delivered_keys = []

        def on_delivered(m):
            # what was delivered is recorded at the moment of delivery: the message belongs to the application from
            # here on, and in some runs the application rewrites it (a relay rewrites Destination-Host / -Realm and
            # the identifiers before forwarding; here every AVP and the identifiers are overwritten)
            with sim.untraced():        # harness bookkeeping: costs no simulated time, cannot be descheduled
                try:
                    delivered_keys.append(msg_key_lib(m))
                except BaseException as e:      # noqa
                    delivered_keys.append(("undecodable", repr(e)))
            if scn.get("scribble"):
                stats["scribbled"] = stats.get("scribbled", 0) + 1
                for a in list(m.avps):
                    try:
                        d = a.data
                        if isinstance(d, (bytes, bytearray)) and len(d):
                            a.data = bytes((x ^ 0x55) for x in d)
                    except BaseException as e:      # noqa  (typed setters may refuse: not our business)
                        if type(e).__name__ in ("SimStop", "SimHang"):
                            raise
                try:
                    m.header.hop_by_hop = b"\x00\x00\x00\x00"
                    m.header.end_to_end = b"\xff\xff\xff\xff"
                except BaseException as e:      # noqa
                    if type(e).__name__ in ("SimStop", "SimHang"):
                        raise

        def main(sim):
            if scn.get("consumer_early") and scn["mode"] == "CLIENT":
                pass
            w.maybe_bystander()
            w.start_node()
            if not w.wait_state(("I-Open", "R-Open"), 20.0):
                stats["opened"] = False
                return
            stats["opened"] = True
            if scn.get("consumer_early"):
                w.start_consumer(on_msg=on_delivered)
            sim.func_calls.clear()
            if scn.get("pairs_depth2"):
                sim.func_watch.update(["DiameterAssociation.get_postprocess_recv_message", "DiameterAssociation.get_message"])
            t_first = sim.now + 0.01        # = t0 of the bursts below
            install_func_stalls(sim, [dict(fs, t0=t_first) for fs in (scn.get("func_stalls") or ())])
            stats["stalls_planned"] = w.apply_stalls(scn.get("stalls")) + len(scn.get("func_stalls") or ())
            # outbound traffic from an application thread (must not disturb inbound)
            if scn.get("outbound"):
                from bromelia.base import DiameterRequest
                from bromelia.avps import SessionIdAVP, OriginHostAVP, OriginRealmAVP, DestinationRealmAVP

                def submit():
                    for i in range(scn["outbound"]):
                        req = DiameterRequest(application_id=APP_ID, command_code=316, avps=[
                            SessionIdAVP(("node;9;%d" % i).encode()), OriginHostAVP(NODE_HOST),
                            OriginRealmAVP(NODE_REALM), DestinationRealmAVP(PEER_REALM)])
                        w.node.send_message(req)
                        sim.sleep(0.003)
                w.call("submitter", submit)
            t0 = max(sim.now + 0.001, t_first)
            last_send = [t0]
            schedule_clock_jumps(sim, scn.get("clock_jumps"))
            for b in scn["bursts"]:
                be = [encs[j] for j in b["msgs"]]
                cuts = self.cuts_for(b, be)
                total = sum(len(e) for e in be)
                # statistics: which messages are split, which segments hold >1 message
                bounds = []
                off = 0
                for e in be:
                    bounds.append((off, off + len(e)))
                    off += len(e)
                for (a, z) in bounds:
                    if any(a < c < z for c in cuts):
                        stats["split_msgs"] += 1
                segs = [0] + cuts + [total]
                for s0, s1 in zip(segs, segs[1:]):
                    inside = sum(1 for (a, z) in bounds if a >= s0 and z <= s1)
                    if inside >= 2:
                        stats["coalesced"] += 1
                stats["segments"] += len(segs) - 1
                delays = None
                if b.get("long_gap"):
                    delays = [w.net.cfg.min_latency + i * b["long_gap"] for i in range(len(cuts) + 1)]
                    stats["long_gaps"] = stats.get("long_gaps", 0) + len(cuts)
                elif b.get("gap"):
                    # spread the pieces out, but keep the whole burst within ~2 simulated seconds
                    g = min(b["gap"], 2.0 / (len(cuts) + 1))
                    delays = [w.net.cfg.min_latency + i * g for i in range(len(cuts) + 1)]

                def go(b=b, cuts=cuts, delays=delays):
                    w.peer.send_stream([refs[j] for j in b["msgs"]], cuts=cuts, delays=delays)
                when = t0 + b["at"]
                last_send[0] = max(last_send[0], when + (max(delays) if delays else 0.0) + w.net.cfg.max_latency)
                sim.at(when, go)
            if scn.get("end_with_dpr"):
                if not scn.get("consumer_early"):
                    w.start_consumer(on_msg=on_delivered)
                w.peer.b["answer_dpr"] = True
                sim.at(last_send[0] + 1e-6, lambda: w.peer.send(C.dpr(PEER_HOST, PEER_REALM, hbh=0x7001, e2e=0x7002)))
            elif not scn.get("consumer_early"):
                sim.sleep(min(0.05, max(0.0, last_send[0] - sim.now)))
                w.start_consumer(on_msg=on_delivered)
            # wait until everything sent has been delivered to the socket buffer
            sim.wait_until(lambda: False, max(0.0, last_send[0] - sim.now), poll=0.05)
            sim.wait_until(lambda: w.peer.sock is not None and w.peer.sock.inflight == 0, 5.0)
            # liveness: within D everything must have been handed over
            # The bound D counts time in which the node is not busy decoding: a legal message of 150 tiny AVPs
            # costs the receive worker hundreds of thousands of source lines (seconds of simulated CPU at a
            # 5 us quantum).  How long decoding may take is C03's step bound, not a C04 matter; here the clock
            # only runs while the receive worker is not runnable.
            idle = [0.0, sim.now]

            def waited_enough():
                now = sim.now
                busy = any(t.state == "runnable" and "recv_message_monitor" in t.role for t in w.lib_threads())
                if not busy:
                    idle[0] += now - idle[1]
                idle[1] = now
                if idle[0] >= D:
                    return True
                if len(delivered_keys) < len(expected):
                    return False
                # ... and the watchdog requests sent have been answered (they may have been sent after the last
                # application message and be held up by the same stalled thread)
                n_dwr = sum(1 for s_ in scn["msgs"] if s_["kind"] == "dwr")
                if not n_dwr:
                    return True
                out_, _ = w.node_tx_messages()
                return sum(1 for m_ in out_ if m_["code"] == C.DW and not C.is_request(m_)) >= n_dwr
            sim.wait_until(waited_enough, scn.get("horizon", 120.0), poll=D / 40.0)
            # a little longer to catch duplicates / spurious deliveries
            sim.sleep(min(1.0, 20 * tick + 0.1))

        sim.run_main(main)
        if w.by_rec is not None:
            stats["bystander"] = w.by_rec["ret"] or w.by_rec["exc"] or "unfinished"

        # ---------------- oracle ----------------
        if sim.halt_reason in ("max_steps", "horizon"):
            # the run's step / time budget ran out before the liveness deadline: nothing can be concluded
            return base_result(sim, [], summary=dict(stats, note="budget exhausted before the verdict: inconclusive"),
                               extra={"split_msgs": 0, "coalesced": 0, "faults": {"inconclusive_budget_exhausted": 1}})
        if not stats["opened"]:
            # cannot judge C04 without an open connection; C06 judges opening
            return base_result(sim, [], summary=dict(stats, note="node did not open"),
                               extra={"split_msgs": 0, "coalesced": 0, "faults": {}})
        got = list(delivered_keys)
        stats["delivered"] = len(got)
        if scn.get("pairs"):
            # per-message liveness (pairs mode only: the pairs are 5 s apart, nothing else is going on): every
            # message reaches the parked consumer within D_local of the moment the peer sent it -- a message that
            # sits next to a sleeping consumer until other traffic wakes it up was not delivered in any useful sense
            kn = w.world.knobs
            d_local = 1.0 + kn["TRACKING_SOCKET_EVENTS_TIMEOUT"] + 30 * tick + 2 * 40000 * sim.quantum + 0.2 + 0.2 + \
                4 * w.net.cfg.max_latency + (0.5 if scn.get("pairs_depth2") else 0.0)
            sent_at = {}
            for ev in w.hist.of("peer_tx"):
                m_ = ev.get("msg")
                if isinstance(m_, dict) and "hbh" in m_:
                    sent_at.setdefault(m_["hbh"], ev["t"])
            rx_at = {}
            for ev in w.hist.of("app_rx"):
                if ev.get("raw"):
                    try:
                        rx_at.setdefault(C.dec_msg(ev["raw"])["hbh"], ev["t"])
                    except Exception:
                        pass
            worst = None
            for hb_, ts_ in sent_at.items():
                if hb_ in rx_at and rx_at[hb_] - ts_ > d_local:
                    if worst is None or rx_at[hb_] - ts_ > worst[1]:
                        worst = (hb_, rx_at[hb_] - ts_)
            stats["max_latency"] = max([rx_at[h] - sent_at[h] for h in rx_at if h in sent_at] + [0.0])
            if worst is not None:
                violations.append({
                    "clause": "application receives every message (a parked consumer is handed a message that has arrived "
                              "within D of its arrival, not when other traffic happens to wake it)",
                    "sig": "C04/stuck-until-later-traffic/pairs",
                    "detail": {"hbh": "%08x" % worst[0], "latency": worst[1], "D_local": d_local,
                               "func_stalls": scn.get("func_stalls")}})
        trig = "split" if stats["split_msgs"] else ("coalesced" if stats["coalesced"] else "whole")
        first_bad = None
        for i in range(max(len(got), len(expected))):
            g = got[i] if i < len(got) else None
            e = expected[i] if i < len(expected) else None
            if g != e:
                first_bad = i
                break
        if first_bad is not None:
            g = got[first_bad] if first_bad < len(got) else None
            e = expected[first_bad] if first_bad < len(expected) else None
            if g is None:
                kind = "missing"
            elif e is None:
                kind = "duplicate" if g in expected else "spurious"
            elif g in expected:
                j = expected.index(g)
                if j < first_bad:
                    kind = "duplicate"
                elif expected[first_bad] in got:
                    kind = "reordered"
                else:
                    kind = "missing"
            else:
                kind = "corrupt"
            dead = [t.role for t, ex in sim.thread_exceptions if t.library]
            violations.append({
                "clause": "application receives exactly the sent sequence, once, whole, in order",
                "sig": "C04/%s/%s" % (kind, trig),
                "detail": {"index": first_bad, "expected": _short(e), "got": _short(g),
                           "delivered": len(got), "sent_app": len(expected),
                           "library_threads_died": dead,
                           "thread_exceptions": [(t.role, "%s: %s" % (type(ex).__name__, str(ex)[:120]))
                                                 for t, ex in sim.thread_exceptions][:4],
                           "state": w.state()}})
        # base messages consumed in order: DWAs echo the DWR ids in order
        dwr_ids = [(m["hbh"], m["e2e"]) for m, s in zip(refs, scn["msgs"]) if s["kind"] == "dwr"]
        out, fr = w.node_tx_messages()
        dwa_ids = [(m["hbh"], m["e2e"]) for m in out if m["code"] == C.DW and not C.is_request(m)]
        if first_bad is None and dwa_ids != dwr_ids:
            violations.append({"clause": "base-protocol messages are consumed in the order sent",
                               "sig": "C04/base-order/%s" % trig,
                               "detail": {"dwr_sent": dwr_ids[:10], "dwa_written": dwa_ids[:10]}})
        return base_result(sim, violations, summary=dict(stats, sent=len(refs), sent_app=len(expected)),
                           extra={"split_msgs": stats["split_msgs"], "coalesced": stats["coalesced"],
                                  "faults": {"message_split_across_segments": stats["split_msgs"],
                                             "segments_with_coalesced_messages": stats["coalesced"],
                                             "segments": stats["segments"],
                                             "thread_stall": sim.stalls_fired,
                                             "preemption_in_bromelia_code": sim.preempt_line + sim.preempt_opcode},
                                  "abstract_states": sorted(w.abstract_states)})


def _short(k):
    if k is None:
        return None
    if k[0] == "undecodable":
        return list(k)
    return {"code": k[0], "hbh": "%08x" % k[2], "req": k[4],
            "tag": next((a[2].decode("latin1") for a in k[5] if a[0] == TAG), None),
            "navps": len(k[5])}


CHECK = C04()
