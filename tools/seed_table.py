#!/usr/bin/env python3
"""Prints a markdown table of /verif/seeded/*/meta.json (which check catches which seeded change)."""
import glob
import json
import os

HERE = os.path.dirname(os.path.dirname(os.path.abspath(__file__)))


def first_line(text):
    for line in (text or "").splitlines():
        line = line.strip().lstrip("#").strip()
        if line:
            return line[:150]
    return ""


def table():
    rows = []
    for f in sorted(glob.glob(os.path.join(HERE, "seeded", "*", "meta.json"))):
        m = json.load(open(f))
        name = os.path.basename(os.path.dirname(f))
        caught = []
        for c, r in sorted(m.get("checks", {}).items()):
            if r.get("caught"):
                sigs = sorted(set(s[1] for s in r.get("signatures", [])))
                caught.append("%s %s (%s)" % (c, r.get("tier", "quick"), ", ".join(s.split("/", 1)[1] for s in sigs[:2])))
        missed = [c for c, r in sorted(m.get("checks", {}).items()) if not r.get("caught")]
        rows.append((name, ", ".join(m.get("files", [])), first_line(m.get("needs_to_manifest")),
                     "; ".join(caught) or "-", ", ".join(missed) or "-"))
    out = ["| seeded change | files | what it is | caught by | not caught by |", "|---|---|---|---|---|"]
    for r in rows:
        out.append("| %s | %s | %s | %s | %s |" % tuple(x.replace("|", "/") for x in r))
    return "\n".join(out)


BEGIN, END = "<!-- seed-table:begin (tools/seed_table.py --design) -->", "<!-- seed-table:end -->"


def main():
    import sys
    t = table()
    if "--design" in sys.argv:
        p = os.path.join(HERE, "DESIGN.md")
        s = open(p).read()
        i, j = s.index(BEGIN) + len(BEGIN), s.index(END)
        open(p, "w").write(s[:i] + "\n" + t + "\n" + s[j:])
    else:
        print(t)


if __name__ == "__main__":
    main()
