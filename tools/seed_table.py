#!/usr/bin/env python3
"""Prints a markdown table of /verif/seeded/*/meta.json (which check catches which seeded change)."""
import glob
import json
import os

HERE = os.path.dirname(os.path.dirname(os.path.abspath(__file__)))


def first_line(text):
    for line in (text or "").splitlines():
        line = line.strip().lstrip("#").strip()
        if line:
            return line[:150]
    return ""


def main():
    rows = []
    for f in sorted(glob.glob(os.path.join(HERE, "seeded", "*", "meta.json"))):
        m = json.load(open(f))
        name = os.path.basename(os.path.dirname(f))
        caught = []
        for c, r in sorted(m.get("checks", {}).items()):
            if r.get("caught"):
                sigs = sorted(set(s[1] for s in r.get("signatures", [])))
                caught.append("%s %s (%s)" % (c, r.get("tier", "quick"), ", ".join(s.split("/", 1)[1] for s in sigs[:2])))
        missed = [c for c, r in sorted(m.get("checks", {}).items()) if not r.get("caught")]
        rows.append((name, ", ".join(m.get("files", [])), first_line(m.get("needs_to_manifest")),
                     "; ".join(caught) or "-", ", ".join(missed) or "-"))
    print("| seeded change | files | what it is | caught by | not caught by |")
    print("|---|---|---|---|---|")
    for r in rows:
        print("| %s | %s | %s | %s | %s |" % r)


if __name__ == "__main__":
    main()
