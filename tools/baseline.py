#!/usr/bin/env python3
"""Run the repository's pinned test suite (guard off) and compare with
/root/.vp/BASELINE.json: every stable_pass test must still pass."""
import json, os, subprocess, sys, tempfile
import xml.etree.ElementTree as ET

def main():
    base = json.load(open("/root/.vp/BASELINE.json"))
    repo = os.environ.get("VERIF_REPO", "/repo")
    with tempfile.TemporaryDirectory() as d:
        xmlf = os.path.join(d, "junit.xml")
        cmd = ["/venv/bin/python", "-m", "pytest", "-ra", "-q", "-p", "no:cacheprovider",
               "--timeout=900", "--continue-on-collection-errors", "--junitxml=" + xmlf]
        env = dict(os.environ)
        env.pop("BROMELIA_VERIF", None)
        p = subprocess.run(cmd, cwd=repo, env=env, stdout=subprocess.PIPE, stderr=subprocess.STDOUT)
        tail = p.stdout.decode("utf-8", "replace")[-1500:]
        passed = set()
        for tc in ET.parse(xmlf).getroot().iter("testcase"):
            if not any(c.tag in ("failure", "error", "skipped") for c in tc):
                passed.add("%s::%s" % (tc.get("classname"), tc.get("name")))
    missing = [t for t in base["stable_pass"] if t not in passed]
    print(tail)
    print("baseline stable_pass=%d passed_now=%d missing=%d" % (len(base["stable_pass"]), len(passed), len(missing)))
    for m in missing[:20]:
        print("  MISSING", m)
    return 1 if missing else 0

if __name__ == "__main__":
    sys.exit(main())
