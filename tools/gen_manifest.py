#!/usr/bin/env python3
"""Writes /verif/MANIFEST.json (kept under version control).  Edit the tables
below, not the JSON."""
import json
import os

HERE = os.path.dirname(os.path.dirname(os.path.abspath(__file__)))

TECH = ("deterministic simulation with fault injection: real bromelia threads parked and released one at a time by a "
        "seeded scheduler (sync-op / source-line / bytecode pre-emption), simulated clock, sockets, selectors and "
        "random source, seeded fault and schedule search with tape replay and minimisation")

TRUST = ("Trusted: the simkit kernel, CPython's threading/queue sources re-bound onto the simulated lock, sys.settrace "
         "line/opcode events, the reference codec/peer in /verif/ref. Sampling, not enumeration: a clean batch is evidence, not proof. ")

CLAIMED = {
    "C03": ("Seeded mutations of well-formed messages (all truncation points, adversarial Message/AVP Length values, wrong-width typed "
            "data, unknown enumerators, bad address family, version != 1, non-UTF-8 identities, misaddressed requests, garbage) injected "
            "into a live node in every state in which bytes can arrive, with seeded segmentation and schedule; oracle: workers survive "
            "or the connection closes cleanly, no lock stranded, API probes return, no thread computes forever; plus the decoder "
            "sub-check (DiameterMessage.load under the step meter: returns or raises a library error within a length-only bound), "
            "a dictionary-wide sweep (every AVP class x adversarial payload; every Grouped class legally nested in itself), flag-bit corruption, "
            "systematic sub-modes (one non-UTF-8 text AVP per run swept over AVP x message kind; runs of 15..300 well-framed undecodable messages).",
            TRUST + "The decoder sub-check is input sampling on the same corpus (labelled as such in the evidence); closing the connection is an accepted reaction to garbage.",
            "DESIGN.md §5 C03"),
    "C06": ("Seeded event histories over the RFC 6733 alphabet for both roles and 0..2 applications, up to 3 starts of the same object; "
            "sequential mode compares the reported state and the wire after every event with the permissive reference model "
            "ref/psm_model.py, concurrent mode checks the hard clauses H1-H8 only (Open only after a valid exchange, one DPR per stop, "
            "DPR answered, disconnect closes, watchdog fires, delivery only while Open, state machine never raises/stops, Closed implies released).",
            TRUST + "The model is permissive wherever the statement is silent; 'valid' messages are in bromelia's own canonical form.",
            "DESIGN.md §5 C06"),
    "C07": ("Seeded histories of base requests (CER, coalesced DWR bursts, CER in Open, DPR) with boundary / repeated / swapped / random "
            "identifier pairs across up to 3 connections of the same Diameter object; oracle over the recorded global history: every "
            "CEA/DWA/DPA on the wire matches exactly one earlier request, carries Result-Code and local origin, R clear, in request order, "
            "and was emitted before any later inbound message took effect; slow pieces (seconds apart), embedded ghost requests, a bystander node.",
            TRUST + "'Emitted' means handed to the transport (written or in its send buffers); unanswered requests are not violations.",
            "DESIGN.md §5 C07"),
    "C13": ("Seeded route tables (1..3 applications x 1..4 codes, shared codes) registered with the real decorator, <= 16 concurrent requests "
            "with injected handler outcomes (answer, None, wrong type, exceptions, slow), per-run barrier sizes and timers; oracle: exactly "
            "the registered handler ran once, exactly one answer per request, fallback answer is UNABLE_TO_COMPLY with ids, Session-Id, "
            "local origin and requester as destination; a second Bromelia object with foreign handlers for the same pairs; handlers that take "
            "seconds, a connection worker descheduled for seconds; liveness judged at quiescence.",
            TRUST + "World B1 (3 runs in 4): the connection object under Worker is a stub; world B2 (1 run in 4): the full stack, Bromelia.run -> Worker.run -> Diameter.context -> real node on the simulated network facing a scripted peer. multiprocessing.Manager is replaced by in-process primitives.",
            "DESIGN.md §5 C13, §14"),
    "C04": ("Seeded search over message sequences x segmentations (every byte, inside headers, coalesced, swept cut positions) "
            "x interleavings of transport reader, receive worker, state machine and consumer; oracle compares the sequence "
            "returned by get_message() with what the reference encoder produced and the DWAs on the wire with the DWRs sent; "
            "pieces seconds apart, wall-clock steps, a bystander node of the same process (also with the node's own identity), stalled-thread faults "
            "anchored at the hand-over functions, a pairs mode with per-message liveness, an application that rewrites what it was given.",
            TRUST + "Simulated OS = Linux/TCP byte stream semantics (no loss/dup/reorder inside a stream); single consumer.",
            "DESIGN.md §5 C04"),
    "C05": ("Seeded search over 1..4 submitter threads x partial-write patterns (down to one byte) x withheld writability x "
            "concurrent inbound traffic x send-buffer limits; oracle parses everything SimSocket.send accepted with the reference "
            "decoder and compares with dump() at submission (none lost, duplicated, torn, reordered per submitter); "
            "stalled-thread faults, wall-clock steps, caller-owned list reuse, a bystander node of the same process.",
            TRUST + "No message larger than the per-run send-buffer limit is submitted; send() never raises EAGAIN after reported writability.",
            "DESIGN.md §5 C05"),
    "C08": ("Every termination cause (local close, peer DPR, EOF, reset, refused / never-completing connect, non-CEA, DPR crossing "
            "a local stop) x every point of the connection life x seeded delay and schedule; oracle: Closed, sockets closed and "
            "unregistered, all library threads exited, blocked get_message() returned, no lock held, restart reaches Open; "
            "stalled-thread faults, wall-clock steps (also inside the DPR/DPA linger), lingering peer, bystander node, a chatty application that keeps "
            "submitting through the end, connect() failing at once (ENETUNREACH), a peer dying in mid-message; the invariant 'Closed implies "
            "released' is evaluated at every context switch.",
            TRUST + "D is computed from the run's polling knobs; Linux connect semantics verified against the real kernel (Windows personality as a variation).",
            "DESIGN.md §5 C08"),
    "C14": ("Seeded search over 1..6 concurrent waiting callers x answer arrival orders/delays (zero delay, duplicates, never, "
            "unsolicited) x schedules with stalled-thread faults anchored inside send_message; oracle: each caller gets the answer "
            "generated for its request, once, and a caller whose answer reached the application layer returns within D; "
            "slow peers (answers after 31-400 s), wall-clock steps, stalls anchored inside the dispatch path, the same Hop-by-Hop outstanding on two "
            "connections, the worker-down flag flapping while an answer is in flight.",
            TRUST + "World B1 (3 runs in 4): the connection object under Worker is a stub; world B2 (1 run in 4): the full stack, Bromelia.run -> Worker.run -> Diameter.context -> real node on the simulated network, the scripted peer answering on the wire. multiprocessing.Manager is replaced by in-process primitives.",
            "DESIGN.md §5 C14, §14"),
    "C15": ("Seeded search over creation histories x adversarial os.urandom outputs x thread interleavings (pre-emption at sync ops, "
            "source lines and bytecodes inside the allocation methods), histories up to 20 000 requests and process lives of minutes to weeks "
            "with wall-clock steps; every issued identifier is compared with all earlier ones.",
            TRUST + "os.urandom is replaced by a simulator-owned source that always eventually yields a fresh value.",
            "DESIGN.md §5 C15"),
    "C16": ("Seeded search over generation histories (AVPs, typed messages, bulk re-origin with identity switches, bytes) interleaved "
            "with steps of the simulated wall clock (frozen, ms, 1 s, days, backwards), counter fast-forward to 2^32, shared update dicts; every generated Session-Id is compared with all earlier "
            "ones and checked for form and identity prefix; one run in five generates from 2..4 threads at once (line / bytecode pre-emption, "
            "anchored stalls inside the generator).",
            TRUST + "Four runs in five are single-threaded histories (the quantifier is over histories and clock rates), one in five is concurrent; the wall clock may also be stepped back.",
            "DESIGN.md §5 C16"),
}

NOT_APPLICABLE = {
    "C01": "pure function of message content: no schedule, clock, fault or interleaving for a simulator to control (input generation would be a different technique)",
    "C02": "DiameterMessage.load is a pure function of a byte string; deciding it means generating wire images, not simulating",
    "C09": "constructing a message from arguments is a pure function; no concurrency, time, I/O or peer",
    "C10": "static facts about class attributes and pure constructors; nothing for a scheduler, clock or fault injector to vary",
    "C11": "history property of a single-threaded in-memory container with no schedule, clock, I/O or fault in it",
    "C12": "decorate_answer is a pure function of (request, answer); the quantifier is over inputs",
    "C17": "pure predicates on an integer / on an answer's Result-Code",
    "C18": "pure string functions (TBCD encode/decode)",
    "C19": "pure function of the configuration dictionary / YAML text; no I/O fault is part of the statement",
    "C20": "pure functions of a value (bit arithmetic, address packing, time arithmetic)",
}

PENDING = {}   # filled below for designed-but-not-yet-built checks


def main():
    all_ids = ["C%02d" % i for i in range(1, 21)]
    built = sorted(p for p in CLAIMED if os.path.exists(os.path.join(HERE, "checks", p.lower() + ".py")))
    checks = []
    for pid in built:
        text, note, ref = CLAIMED[pid]
        checks.append({
            "property_id": pid,
            "quick_cmd": "./check %s --tier quick" % pid,
            "thorough_cmd": "./check %s --tier thorough" % pid,
            "evidence_file": "/verif/evidence/%s.json" % pid,
            "replay_cmd_template": "./check replay {path}",
            "engine": "simkit",
            "level_claimed": {"category": "exploration", "text": text, "design_ref": ref},
            "level_note": note,
            "technique": TECH,
        })
    na = [{"property_id": k, "reason": v} for k, v in sorted(NOT_APPLICABLE.items())]
    for pid in all_ids:
        if pid not in built and pid not in NOT_APPLICABLE:
            na.append({"property_id": pid, "reason": "simulation target per DESIGN.md, check not built yet (work in progress)"})
    m = {
        "version": 1,
        "setup_cmd": "/venv/bin/python -c \"import yaml, sys; sys.path.insert(0, '/verif'); import simkit.kernel, simkit.net, simkit.driver, ref.codec\"",
        "hooks": {
            "guard": "BROMELIA_VERIF",
            "enable": "no source hooks: every seam is a module attribute of bromelia (threading, queue, time, datetime, selectors, socket, os.urandom, multiprocessing) rebound by the harness in its own process (simkit/seams.py); checks import /repo's working tree via PYTHONPATH",
            "baseline_off_cmd": "python3 /verif/tools/baseline.py",
            "source_commits": [],
            "add_only": True,
        },
        "engines": [{
            "name": "simkit", "path": "/verif/simkit", "serves_properties": built,
            "kind_free_text": "deterministic discrete-event simulator: baton-passing real threads, simulated clock / sockets / selectors / urandom / manager, seeded choices on a replayable tape, fork-per-run parallel driver, scenario and tape minimiser",
        }],
        "checks": checks,
        "notes": "See DESIGN.md. Genuine defects repaired in /repo are 'fix:' commits listed in known_findings.json (fixed entries suppress nothing).",
        "not_applicable": na,
    }
    with open(os.path.join(HERE, "MANIFEST.json"), "w") as f:
        json.dump(m, f, indent=1)
    print("claimed:", built)


if __name__ == "__main__":
    main()
