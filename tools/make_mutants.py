#!/usr/bin/env python3
"""Regenerates /verif/selftest/mutants/*.patch from /repo's HEAD: each mutant is
one textual edit that breaks exactly one claimed property while the tree still
imports and the suite stays green.  Run after /repo changes (line drift)."""
import os
import subprocess
import sys
import tempfile
import shutil

HERE = os.path.dirname(os.path.dirname(os.path.abspath(__file__)))
OUT = os.path.join(HERE, "selftest", "mutants")

# (name, expected property ids, optional runs, [(file, old, new), ...])
MUTANTS = [
    ("c03_narrow_catch", ["C03"], None, [("bromelia/setup.py",
        "                except PARSING_ERRORS:\n",
        "                except AVPParsingError:\n")]),
    ("c03_len_loop", ["C03"], None, [("bromelia/base.py",
        "            if header.get_length() < DIAMETER_HEADER_LENGTH:\n",
        "            if header.get_length() < 0:\n")]),
    ("c04_drop_remainder", ["C04"], None, [("bromelia/setup.py",
        "                if len(self._recv_pending) < length:\n                    break\n",
        "                if len(self._recv_pending) < length:\n                    self._recv_pending = b\"\"\n                    break\n")]),
    ("c04_unlocked_swap", ["C04"], "400", [("bromelia/transport.py",
        "        with self._recv_data_lock:\n            data_stream = self._recv_data_stream\n            self._recv_data_stream = b\"\"\n            self._recv_data_available.clear()\n        return data_stream\n",
        "        data_stream = self._recv_data_stream\n        self._recv_data_stream = b\"\"\n        self._recv_data_available.clear()\n        return data_stream\n")]),
    ("c05_read_resets_mask", ["C05"], None, [("bromelia/transport.py",
        "            if self.data_stream or self._send_buffer:\n",
        "            if False and (self.data_stream or self._send_buffer):\n")]),
    ("c05_requeue_tail", ["C05"], None, [("bromelia/setup.py",
        "            if stream and MESSAGE_LENGTH > SEND_BUFFER_MAXIMUM_SIZE - len(stream):\n                break\n\n            self._send_messages.get()\n",
        "            self._send_messages.get()\n            if stream and MESSAGE_LENGTH > SEND_BUFFER_MAXIMUM_SIZE - len(stream):\n                self._send_messages.put(msg)\n                break\n\n")]),
    ("c06_any_host", ["C06"], None, [("bromelia/process.py",
        "            if data == connection.peer_node.host_name:\n",
        "            if data.endswith(connection.peer_node.realm):\n")]),
    ("c06_no_watchdog", ["C06"], None, [("bromelia/setup.py",
        "            if (not self.transport.events) and (self.transport.tracking_events_count >= self.watchdog_timeout):\n",
        "            if (self.transport.events) and (self.transport.tracking_events_count >= self.watchdog_timeout):\n")]),
    ("c06_double_dpr", ["C06"], None, [("bromelia/statemachine.py",
        "        if self.is_set_release_signal_from_local():\n            self.event_stop()\n            return\n",
        "        if self.is_set_release_signal_from_local():\n            self.event_stop()\n            self.event_stop()\n            return\n")]),
    ("c07_swap_ids", ["C07"], None, [("bromelia/process.py",
        "        answer.header.hop_by_hop = msg.header.hop_by_hop\n        answer.header.end_to_end = msg.header.end_to_end\n",
        "        answer.header.hop_by_hop = msg.header.end_to_end\n        answer.header.end_to_end = msg.header.hop_by_hop\n")]),
    ("c07_skip_e2e_on_same_hbh", ["C07"], None, [("bromelia/process.py",
        "        answer.header.hop_by_hop = msg.header.hop_by_hop\n        answer.header.end_to_end = msg.header.end_to_end\n",
        "        if answer.header.hop_by_hop != msg.header.hop_by_hop:\n            answer.header.hop_by_hop = msg.header.hop_by_hop\n            answer.header.end_to_end = msg.header.end_to_end\n")]),
    ("c08_no_wake_on_close", ["C08"], None, [("bromelia/setup.py",
        "        self.postprocess_recv_messages_ready.set()\n\n\n    def recv_message_from_queue",
        "        pass\n\n\n    def recv_message_from_queue")]),
    ("c08_closing_ignores_disc", ["C08"], None, [("bromelia/statemachine.py",
        "        if self.is_set_release_signal_from_peer():\n            self.event_peer_disc()\n            return\n",
        "")]),
    ("c08_write_error_uncaught", ["C08"], "300", [("bromelia/transport.py",
        "            \n            except OSError:\n                tcp_connection.exception(f\"[Socket-{self.sock_id}] An error \"\\\n",
        "            \n            except BlockingIOError:\n                tcp_connection.exception(f\"[Socket-{self.sock_id}] An error \"\\\n")]),
    ("c13_fallback_origin_as_dest", ["C13"], None, [("bromelia/bromelia.py",
        "                    DestinationRealmAVP(request.origin_realm_avp.data),\n",
        "                    DestinationRealmAVP(config[\"LOCAL_NODE_REALM\"]),\n")]),
    ("c13_fallback_sent_twice", ["C13"], None, [("bromelia/bromelia.py",
        "            answer = self.create_error_answer(request)\n            self.send_message(answer)\n",
        "            answer = self.create_error_answer(request)\n            self.send_message(answer)\n            if isinstance(answer, DiameterRequest):\n                return\n            self.send_message(answer) if request.header.get_command_code() == 275 else None\n")]),
    ("c14_late_register", ["C14"], None, [("bromelia/bromelia.py",
        "        worker.set_outgoing_message(msg)\n        bromelia_logger.debug(f\"{logging_info} Just put message into \"\\\n                              f\"send_queue Queue and notified send_event Event\")\n\n        if p_answer is not None:\n",
        "        if p_answer is not None:\n            worker.pending_answers.pop(msg.header.hop_by_hop, None)\n        worker.set_outgoing_message(msg)\n        if p_answer is not None:\n            worker.insert_pending_answer(p_answer)\n\n        if p_answer is not None:\n")]),
    ("c14_clear_before_wait", ["C14"], None, [("bromelia/bromelia.py",
        "        self.recv_event.wait()\n        self.recv_event.clear()\n",
        "        self.recv_event.clear()\n        self.recv_event.wait()\n")]),
    ("c15_check_outside_lock", ["C15"], None, [("bromelia/base.py",
        "            with DiameterRequest.identifiers_lock:\n                if random_identifier not in DiameterRequest.hop_by_hop_identifiers:\n                    DiameterRequest.hop_by_hop_identifiers.append(random_identifier)\n                    return random_identifier\n",
        "            if random_identifier not in DiameterRequest.hop_by_hop_identifiers:\n                with DiameterRequest.identifiers_lock:\n                    DiameterRequest.hop_by_hop_identifiers.append(random_identifier)\n                    return random_identifier\n")]),
    ("c15_no_e2e_check", ["C15"], None, [("bromelia/base.py",
        "                if random_identifier not in DiameterRequest.end_to_end_identifiers:\n",
        "                if True:\n")]),
    ("c16_reset_on_switch", ["C16"], None, [("bromelia/_internal_utils.py",
        "            SessionHandler.init = max(SessionHandler.init, SessionHandler._now())\n            SessionHandler._next()\n            return\n",
        "            SessionHandler.reset()\n            return\n")]),
    ("c16_no_increment_on_switch", ["C16"], None, [("bromelia/_internal_utils.py",
        "            SessionHandler.init = max(SessionHandler.init, SessionHandler._now())\n            SessionHandler._next()\n            return\n",
        "            SessionHandler.init = max(SessionHandler.init, SessionHandler._now())\n            return\n")]),
    ("c16_high_follows_clock", ["C16"], None, [("bromelia/_internal_utils.py",
        "            SessionHandler.init = max(SessionHandler.init, SessionHandler._now())\n",
        "            SessionHandler.init = SessionHandler._now()\n")]),
    ("c16_read_outside_lock", ["C16"], None, [("bromelia/_internal_utils.py",
        "            SessionHandler._verify_session_id(previous, current=data)\n\n            high = SessionHandler.init\n            low = SessionHandler.id\n            optional = SessionHandler.optional\n",
        "            SessionHandler._verify_session_id(previous, current=data)\n\n        high = SessionHandler.init\n        low = SessionHandler.id\n        optional = SessionHandler.optional\n")]),
    ("c08_election_states_trap", ["C08", "C03"], "300", [("bromelia/statemachine.py",
        "        self.set_wait_returns_state(set_name=True)\n\n        #: The election itself is not implemented, but the connection must\n        #: not be trapped in here once the peer is gone or a stop is requested.\n        if (self.is_set_release_signal_from_peer() or \n                self.is_set_stop_request_from_local()):\n            self.set_closed_state()\n",
        "        self.set_wait_returns_state(set_name=True)\n")]),
    ("c08_close_lost_across_open", ["C08"], "400", [("bromelia/statemachine.py",
        "        return (not self.association.state_is_active or \n                self.association.stop_requested)\n",
        "        return not self.association.state_is_active\n")]),
    ("c08_closing_does_not_flush", ["C08"], None, [("bromelia/statemachine.py",
        "        if self.has_send_queue_message():\n            self.send_message()\n\n        if self.has_recv_queue_message():\n            self.msg = self.get_message()\n\n            self.make_default_logging()\n\n            if has_recv_dpa(self.msg):",
        "        if self.has_recv_queue_message():\n            self.msg = self.get_message()\n\n            self.make_default_logging()\n\n            if has_recv_dpa(self.msg):")]),
    ("c06_count_only_validation", ["C06"], None, [("bromelia/process.py",
        "        if (self.checklist_mandatory_avps == 5 and len(self.mandatory_avps_found) == 5) and",
        "        if (self.checklist_mandatory_avps == 5) and")]),
    ("c03_uri_strict_decode", ["C03"], None, [("bromelia/types.py",
        "            try:\n                data = data.decode(\"utf-8\")\n\n            except UnicodeDecodeError:\n                raise DataTypeError(\"invalid data format. It does not \"\\\n                                    \"comply to the DiameterURI syntax\")\n",
        "            data = data.decode(\"utf-8\")\n")]),
]


def main():
    wt = tempfile.mkdtemp(prefix="verif-mkmut-")
    os.rmdir(wt)
    subprocess.check_call(["git", "-C", "/repo", "worktree", "add", "-q", "--detach", wt, "HEAD"])
    os.makedirs(OUT, exist_ok=True)
    bad = 0
    try:
        for name, expect, runs, edits in MUTANTS:
            subprocess.check_call(["git", "-C", wt, "checkout", "-q", "--", "."])
            ok = True
            for f, old, new in edits:
                p = os.path.join(wt, f)
                s = open(p).read()
                if s.count(old) != 1:
                    print("mutant %s: anchor text found %d times in %s" % (name, s.count(old), f))
                    ok = False
                    break
                open(p, "w").write(s.replace(old, new, 1))
            if not ok:
                bad += 1
                continue
            r = subprocess.run(["/venv/bin/python", "-W", "ignore", "-c", "import bromelia, bromelia.setup, bromelia.bromelia"],
                               cwd=wt, env=dict(os.environ, PYTHONPATH=wt, PYTHONDONTWRITEBYTECODE="1"),
                               stdout=subprocess.PIPE, stderr=subprocess.STDOUT)
            if r.returncode:
                print("mutant %s does not import: %s" % (name, r.stdout.decode()[-300:]))
                bad += 1
                continue
            diff = subprocess.check_output(["git", "-C", wt, "diff"]).decode()
            with open(os.path.join(OUT, name + ".patch"), "w") as fh:
                fh.write("# expect: %s\n" % " ".join(expect))
                if runs:
                    fh.write("# runs: %s\n" % runs)
                fh.write(diff)
            print("wrote", name)
    finally:
        subprocess.call(["git", "-C", "/repo", "worktree", "remove", "--force", wt])
        shutil.rmtree(wt, ignore_errors=True)
    return 1 if bad else 0


if __name__ == "__main__":
    sys.exit(main())
