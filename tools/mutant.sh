#!/bin/sh
# usage: tools/mutant.sh <patch file> <property id> [more ids] [-- extra check args]
# Applies the patch to a scratch worktree of /repo (outside /repo and /verif),
# runs the named checks against it (VERIF_REPO), removes the worktree.
set -u
PATCH="$(readlink -f "$1")"; shift
HERE="$(cd "$(dirname "$0")/.." && pwd)"
WT="$(mktemp -d /tmp/verif-mutant-XXXXXX)"
rmdir "$WT"
git -C /repo worktree add -q --detach "$WT" HEAD || exit 2
cleanup() { git -C /repo worktree remove --force "$WT" >/dev/null 2>&1; rm -rf "$WT"; }
trap cleanup EXIT INT TERM
if ! git -C "$WT" apply "$PATCH"; then echo "PATCH-DOES-NOT-APPLY $PATCH"; exit 2; fi
IDS=""; EXTRA=""
while [ $# -gt 0 ]; do
  if [ "$1" = "--" ]; then shift; EXTRA="$*"; break; fi
  IDS="$IDS $1"; shift
done
rc=0
for id in $IDS; do
  VERIF_REPLAY_DIR="$WT/.replays" VERIF_REPO="$WT" "$HERE/check" "$id" --no-evidence $EXTRA 2>&1 | grep -v "^  detail=" | cut -c1-260
done
exit 0
