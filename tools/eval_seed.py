#!/usr/bin/env python3
"""
tools/eval_seed.py <property id> <n> [--checks C04,C05] [--tier quick] [--no-suite]

Confirms an independently written breaking change (/tmp/seed-<id>-out/change<n>.patch
with demo<n>.py and change<n>.md) in a scratch worktree outside /repo and /verif:
  1. the patch applies to /repo's HEAD and touches only bromelia/;
  2. the demonstration passes on the clean tree and fails with the change;
  3. the repository's suite gives the same stable_pass set with the change;
  4. which of our checks report a violation on the changed tree.
Then stores it as /verif/seeded/<id>-<n>/{patch.diff,demo.py,meta.json}.
"""
import json
import os
import shutil
import subprocess
import sys
import tempfile
import time

HERE = os.path.dirname(os.path.dirname(os.path.abspath(__file__)))


def sh(cmd, **kw):
    return subprocess.run(cmd, stdout=subprocess.PIPE, stderr=subprocess.STDOUT, **kw)


def main():
    pid, n = sys.argv[1], sys.argv[2]
    args = sys.argv[3:]
    checks = [pid]
    tier = "quick"
    suite = True
    src = "/tmp/seed-%s-out" % pid
    name = None
    i = 0
    while i < len(args):
        if args[i] == "--checks":
            checks = args[i + 1].split(",")
            i += 2
        elif args[i] == "--tier":
            tier = args[i + 1]
            i += 2
        elif args[i] == "--no-suite":
            suite = False
            i += 1
        elif args[i] == "--src":
            src = args[i + 1]
            i += 2
        elif args[i] == "--name":
            name = args[i + 1]
            i += 2
        else:
            i += 1
    patch = os.path.join(src, "change%s.patch" % n)
    demo = os.path.join(src, "demo%s.py" % n)
    note = os.path.join(src, "change%s.md" % n)
    wt = tempfile.mkdtemp(prefix="verif-seed-")
    os.rmdir(wt)
    meta = {"property": pid, "n": int(n), "source": "independent sub-agent given only the property text and a scratch worktree",
            "ran": []}
    try:
        r = sh(["git", "-C", "/repo", "worktree", "add", "-q", "--detach", wt, "HEAD"])
        if r.returncode:
            print(r.stdout.decode())
            return 2
        meta["repo_head"] = sh(["git", "-C", "/repo", "rev-parse", "--short", "HEAD"]).stdout.decode().strip()
        env = dict(os.environ, PYTHONPATH=wt, PYTHONDONTWRITEBYTECODE="1")
        # demo on clean tree
        t0 = time.time()
        r = sh(["timeout", "300", "/venv/bin/python", "-W", "ignore", demo], cwd=wt, env=env)
        meta["demo_clean_exit"] = r.returncode
        meta["ran"].append("demo on clean worktree: exit %d (%.0fs)" % (r.returncode, time.time() - t0))
        # apply
        r = sh(["git", "-C", wt, "apply", patch])
        if r.returncode:
            print("PATCH DOES NOT APPLY:", r.stdout.decode())
            meta["applies"] = False
            print(json.dumps(meta, indent=1))
            return 2
        meta["applies"] = True
        files = sh(["git", "-C", wt, "diff", "--name-only"]).stdout.decode().split()
        meta["files"] = files
        meta["only_bromelia"] = all(f.startswith("bromelia/") for f in files)
        r = sh(["/venv/bin/python", "-W", "ignore", "-c", "import bromelia, bromelia.setup, bromelia.bromelia"], cwd=wt, env=env)
        meta["imports"] = r.returncode == 0
        t0 = time.time()
        r = sh(["timeout", "300", "/venv/bin/python", "-W", "ignore", demo], cwd=wt, env=env)
        meta["demo_changed_exit"] = r.returncode
        meta["demo_changed_output_tail"] = r.stdout.decode("utf-8", "replace")[-600:]
        meta["ran"].append("demo with the change: exit %d (%.0fs)" % (r.returncode, time.time() - t0))
        if suite:
            t0 = time.time()
            r = sh(["python3", os.path.join(HERE, "tools", "baseline.py")], env=dict(os.environ, VERIF_REPO=wt))
            tail = r.stdout.decode("utf-8", "replace").strip().splitlines()[-1:]
            meta["suite_with_change"] = tail[0] if tail else ""
            meta["suite_ok"] = r.returncode == 0
            meta["ran"].append("tools/baseline.py with VERIF_REPO=<worktree>: %s (%.0fs)" % (meta["suite_with_change"], time.time() - t0))
        # our checks
        meta["checks"] = {}
        for c in checks:
            t0 = time.time()
            r = sh([os.path.join(HERE, "check"), c, "--tier", tier, "--triage", "--no-evidence"],
                   env=dict(os.environ, VERIF_REPO=wt, VERIF_REPLAY_DIR=os.path.join(wt, ".replays")))
            out = r.stdout.decode("utf-8", "replace")
            sigs = []
            for line in out.splitlines():
                ls = line.strip()
                if ls and ls.split()[0].isdigit() and len(ls.split()) > 1 and ls.split()[1].startswith(c + "/"):
                    sigs.append((int(ls.split()[0]), ls.split()[1]))
            herr = [l for l in out.splitlines() if "harness_errors=" in l]
            meta["checks"][c] = {"caught": bool(sigs), "signatures": sigs[:12], "tier": tier,
                                 "wall_s": round(time.time() - t0, 1), "tail": herr[-1] if herr else out[-300:]}
            meta["ran"].append("./check %s --tier %s --triage with VERIF_REPO=<worktree>: %s" % (
                c, tier, "CAUGHT %s" % [s[1] for s in sigs[:4]] if sigs else "missed"))
    finally:
        sh(["git", "-C", "/repo", "worktree", "remove", "--force", wt])
        shutil.rmtree(wt, ignore_errors=True)
    prev_path = os.path.join(HERE, "seeded", name or "%s-%s" % (pid, n), "meta.json")
    if not suite and os.path.exists(prev_path):
        try:
            prev = json.load(open(prev_path))
            for k in ("suite_with_change", "suite_ok"):
                if k in prev:
                    meta[k] = prev[k]
            meta["ran"].append("suite result carried over from the earlier confirmation of this change: %s" % prev.get("suite_with_change"))
        except ValueError:
            pass
    valid = meta.get("applies") and meta.get("only_bromelia") and meta.get("imports") and \
        meta.get("demo_clean_exit") == 0 and meta.get("demo_changed_exit") not in (0, None) and \
        (meta.get("suite_ok", True))
    meta["confirmed"] = bool(valid)
    if os.path.exists(note):
        with open(note) as f:
            meta["needs_to_manifest"] = f.read()[:3000]
    print(json.dumps({k: v for k, v in meta.items() if k not in ("needs_to_manifest", "demo_changed_output_tail")}, indent=1))
    if valid:
        d = os.path.join(HERE, "seeded", name or "%s-%s" % (pid, n))
        os.makedirs(d, exist_ok=True)
        shutil.copy(patch, os.path.join(d, "patch.diff"))
        shutil.copy(demo, os.path.join(d, "demo.py"))
        with open(os.path.join(d, "meta.json"), "w") as f:
            json.dump(meta, f, indent=1)
        print("stored", d)
    return 0


if __name__ == "__main__":
    sys.exit(main())
