#!/bin/sh
# usage: tools/soak.sh <first seed> <last seed> [tier] [workers]
# False-alarm hunt: every check, one batch per VERIF_SEED value, no evidence written; replays under $OUT.
HERE="$(cd "$(dirname "$0")/.." && pwd)"
A=${1:-2}; B=${2:-6}; TIER=${3:-quick}; W=${4:-8}
OUT=${SOAK_OUT:-/tmp/verif-soak}
mkdir -p "$OUT/replays"
s=$A
while [ "$s" -le "$B" ]; do
  for c in C03 C04 C05 C06 C07 C08 C13 C14 C15 C16; do
    VERIF_SEED=$s VERIF_REPLAY_DIR="$OUT/replays" "$HERE/check" $c --tier "$TIER" --no-evidence --workers "$W" 2>&1 \
      | grep -v "^  File\|^Thread\|^$" | grep "VIOLATION\|clause=\|detail=\|done property\|harness" | cut -c1-700 | sed "s/^/seed=$s /"
  done
  s=$((s+1))
done
