"""Replay a file in-process and dump the recorded history (debug aid)."""
import sys, json, os
sys.path.insert(0, os.path.dirname(os.path.dirname(os.path.abspath(__file__))))
from simkit.seams import import_bromelia
import_bromelia()
from simkit.kernel import Tape
import importlib
doc = json.load(open(sys.argv[1]))
mod = importlib.import_module("checks.%s" % doc["property"].lower())
import ref.peer as rp
orig = rp.History.add
def add(self, kind, **kw):
    ev = orig(self, kind, **kw)
    d = {k: v for k, v in kw.items() if k != "msg"}
    m = kw.get("msg")
    if m is not None:
        d["m"] = "%s code=%d hbh=%08x" % ("REQ" if m["flags"] & 0x80 else "ANS", m["code"], m["hbh"])
    if "raw" in d and d["raw"] is not None:
        d["raw"] = d["raw"][:24].hex()
    sys.stderr.write("%.6f %7d %-28s %-16s %s\n" % (ev["t"], ev["step"], self.sim.cur.role if self.sim.cur else "-", kind, d))
    return ev
rp.History.add = add
r = mod.CHECK.run(doc["scenario"], Tape.unrle(doc["tape"]))
print(json.dumps(r["violations"], default=repr)[:2000])
os._exit(0)
