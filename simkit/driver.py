# -*- coding: utf-8 -*-
"""
simkit.driver -- runs many simulated executions in forked children, collects
verdicts, minimises and writes replay files, classifies against the known
findings file, and writes the evidence file.

Exit codes: 0 held on everything explored (possibly with KNOWN-FINDING
lines), 1 with ``VIOLATION property=<id> replay=<path>``, 2 harness error.
"""

import faulthandler
import hashlib
import json
import os
import random
import select
import signal
import sys
import time
import traceback

VERIF = os.path.dirname(os.path.dirname(os.path.abspath(__file__)))
KNOWN_FINDINGS = os.path.join(VERIF, "known_findings.json")


def derive_seed(*parts):
    h = hashlib.sha256(("|".join(str(p) for p in parts)).encode()).digest()
    return int.from_bytes(h[:6], "big")


# ---------------------------------------------------------------------------
# fork-per-run execution
# ---------------------------------------------------------------------------

def _child(fn, arg, wfd, wall):
    try:
        devnull = os.open(os.devnull, os.O_WRONLY)
        os.dup2(devnull, 1)
        errf = os.open("/tmp/verif-child-%d.err" % os.getpid(), os.O_WRONLY | os.O_CREAT | os.O_TRUNC, 0o600)
        os.dup2(errf, 2)
        faulthandler.enable()
        faulthandler.dump_traceback_later(max(1.0, wall - 1.0), exit=False)
        try:
            res = fn(arg)
            out = {"ok": True, "res": res}
        except BaseException as e:      # noqa
            out = {"ok": False, "err": "%s: %s" % (type(e).__name__, e),
                   "tb": traceback.format_exc()[-4000:]}
        data = json.dumps(out, default=_json_default).encode()
        off = 0
        while off < len(data):
            off += os.write(wfd, data[off:off + 65536])
    finally:
        os._exit(0)


def _child_err(pid):
    path = "/tmp/verif-child-%d.err" % pid
    try:
        with open(path, "rb") as f:
            data = f.read()
        os.unlink(path)
        return data[-3000:].decode("utf-8", "replace")
    except OSError:
        return ""


def _json_default(o):
    if isinstance(o, (bytes, bytearray)):
        return o.hex()
    if isinstance(o, set):
        return sorted(o)
    return repr(o)


def run_parallel(fn, items, workers=None, wall=60.0, on_result=None):
    """Run fn(item) for every item, each in its own forked child.
    Returns list of dicts {"ok":bool, "res":..., "err":..., "timeout":bool}
    in item order."""
    workers = workers or int(os.environ.get("VERIF_WORKERS", "0")) or (os.cpu_count() or 4)
    results = [None] * len(items)
    pending = list(range(len(items)))
    pending.reverse()
    live = {}        # rfd -> (idx, pid, t0, chunks)
    sys.stdout.flush()
    sys.stderr.flush()
    while pending or live:
        while pending and len(live) < workers:
            idx = pending.pop()
            rfd, wfd = os.pipe()
            pid = os.fork()
            if pid == 0:
                os.close(rfd)
                for fd in list(live):
                    try:
                        os.close(fd)
                    except OSError:
                        pass
                _child(fn, items[idx], wfd, wall)
            os.close(wfd)
            live[rfd] = [idx, pid, time.time(), []]
        if not live:
            continue
        ready, _, _ = select.select(list(live), [], [], 0.25)
        now = time.time()
        for rfd in ready:
            ent = live[rfd]
            data = os.read(rfd, 1 << 20)
            if data:
                ent[3].append(data)
                continue
            os.close(rfd)
            del live[rfd]
            try:
                os.waitpid(ent[1], 0)
            except ChildProcessError:
                pass
            raw = b"".join(ent[3])
            cerr = _child_err(ent[1])
            try:
                out = json.loads(raw.decode()) if raw else {"ok": False, "err": "child died without output"}
            except ValueError:
                out = {"ok": False, "err": "unparsable child output"}
            if not out.get("ok") and cerr and not out.get("tb"):
                out["tb"] = cerr
            results[ent[0]] = out
            if on_result:
                on_result(ent[0], out)
        for rfd, ent in list(live.items()):
            if now - ent[2] > wall:
                try:
                    os.kill(ent[1], signal.SIGKILL)
                    os.waitpid(ent[1], 0)
                except (ProcessLookupError, ChildProcessError):
                    pass
                os.close(rfd)
                del live[rfd]
                out = {"ok": False, "err": "wall timeout %.0fs" % wall, "timeout": True,
                       "tb": _child_err(ent[1])}
                results[ent[0]] = out
                if on_result:
                    on_result(ent[0], out)
    return results


# ---------------------------------------------------------------------------
# known findings
# ---------------------------------------------------------------------------

def load_known_findings(prop):
    try:
        with open(KNOWN_FINDINGS) as f:
            kf = json.load(f)
    except FileNotFoundError:
        return []
    return [e for e in kf.get("findings", []) if e.get("property") == prop]


def fingerprint_repo():
    root = os.path.join(os.environ.get("VERIF_REPO", "/repo"), "bromelia")
    h = hashlib.sha256()
    for name in sorted(os.listdir(root)):
        if name.endswith(".py"):
            with open(os.path.join(root, name), "rb") as f:
                h.update(name.encode())
                h.update(f.read())
    return h.hexdigest()[:16]


# ---------------------------------------------------------------------------
# the check runner
# ---------------------------------------------------------------------------

class Check(object):
    """Interface a property check implements."""
    prop = "C00"
    rule = ""
    components_real = []
    components_stub = []
    assumptions = []
    quick_runs = 64
    thorough_runs = 2000
    run_wall = 90.0

    def gen_scenario(self, rng, tier, index):
        raise NotImplementedError

    def run(self, scn, tape_in=None):
        """Executed in a forked child.  Returns a result dict (see below)."""
        raise NotImplementedError

    def shrink(self, scn):
        """Yield simpler scenarios (one change each)."""
        return ()

    def nontrivial(self, res):
        return True

    def sample(self, scn, res):
        return {"scenario": scn, "outcome": res.get("summary")}


def _run_one(packed):
    check, scn, tape_in = packed
    t0 = time.time()
    res = check.run(scn, tape_in)
    res["wall"] = time.time() - t0
    return res


def _sigs(res):
    return sorted(set(v["sig"] for v in res.get("violations", [])))


def _sched_shrink(scn):
    """Generic candidates: fewer pre-emptions (coarser schedule)."""
    import copy
    sc = scn.get("sched") or {}
    if sc.get("opcode"):
        c = copy.deepcopy(scn)
        c["sched"]["opcode"] = False
        yield c
    if sc.get("p_line", 0) > 0:
        c = copy.deepcopy(scn)
        c["sched"]["p_line"] = sc["p_line"] / 4.0 if sc["p_line"] > 0.002 else 0.0
        yield c
    if sc.get("p_sync", 0) > 0.02:
        c = copy.deepcopy(scn)
        c["sched"]["p_sync"] = sc["p_sync"] / 3.0
        yield c


def minimise(check, scn, tape, target_sig, budget_s, workers):
    """Scenario delta-debugging, then tape zeroing.  Returns (scn, tape)."""
    from .kernel import Tape
    t_end = time.time() + budget_s
    best_scn, best_tape = scn, tape

    def fails(results):
        for i, r in enumerate(results):
            if r and r.get("ok") and target_sig in _sigs(r["res"]):
                return i
        return None

    # 1. scenario shrinking: candidates are run with a fresh schedule search
    #    (a few derived seeds) because dropping an operation shifts the tape.
    improved = True
    rounds = 0
    while improved and time.time() < t_end and rounds < 40:
        improved = False
        rounds += 1
        cands = list(check.shrink(best_scn)) + list(_sched_shrink(best_scn))
        if not cands:
            break
        jobs = []
        for ci, c in enumerate(cands[:48]):
            for k in range(3):
                c2 = json.loads(json.dumps(c))
                c2["seed"] = derive_seed(c.get("seed", 0), "shrink", k)
                jobs.append((check, c2, None))
        res = run_parallel(_run_one, jobs, workers, wall=check.run_wall)
        i = fails(res)
        if i is not None:
            best_scn = jobs[i][1]
            best_tape = Tape.unrle(res[i]["res"]["tape"])
            improved = True

    # 2. tape minimisation: zero blocks (value 0 = default choice)
    tape = list(best_tape)
    n = len(tape)
    # truncate trailing part first
    chunk = max(1, n // 2)
    while chunk >= 1 and time.time() < t_end:
        jobs = []
        spans = []
        i = 0
        while i < n:
            j = min(n, i + chunk)
            if any(tape[i:j]):
                cand = tape[:i] + [0] * (j - i) + tape[j:]
                jobs.append((check, best_scn, cand))
                spans.append((i, j))
            i = j
            if len(jobs) >= 64:
                break
        if not jobs:
            if chunk == 1:
                break
            chunk //= 2
            continue
        res = run_parallel(_run_one, jobs, workers, wall=check.run_wall)
        progressed = False
        for k, r in enumerate(res):
            if r and r.get("ok") and target_sig in _sigs(r["res"]):
                # accept the first; re-evaluate others next round
                i, j = spans[k]
                tape = tape[:i] + [0] * (j - i) + tape[j:]
                progressed = True
                break
        if not progressed:
            if chunk == 1:
                break
            chunk //= 2
    while tape and tape[-1] == 0:
        tape.pop()
    return best_scn, tape


def main_check(check, argv=None):
    import argparse
    from .kernel import Tape
    ap = argparse.ArgumentParser()
    ap.add_argument("--tier", default=os.environ.get("VERIF_TIER", "quick"))
    ap.add_argument("--replay", default=None)
    ap.add_argument("--runs", type=int, default=None)
    ap.add_argument("--no-evidence", action="store_true")
    ap.add_argument("--workers", type=int, default=None)
    ap.add_argument("--verbose", action="store_true")
    ap.add_argument("--run-index", type=int, default=None, help="run one scenario index only and write its replay file")
    ap.add_argument("--digests", type=int, default=None, help="print 'index digest violations' for the first N scenarios (determinism self-test)")
    ap.add_argument("--triage", action="store_true", help="list violation signatures with counts; no minimisation, no evidence")
    args = ap.parse_args(argv)
    prop = check.prop
    workers = args.workers or int(os.environ.get("VERIF_WORKERS", "0")) or (os.cpu_count() or 4)

    from .seams import import_bromelia
    import_bromelia()

    if args.replay:
        return replay(check, args.replay)

    tier = args.tier if args.tier in ("quick", "thorough") else "quick"
    seed = int(os.environ.get("VERIF_SEED", "0") or 0)
    nruns = args.runs or (check.quick_runs if tier == "quick" else check.thorough_runs)
    t0 = time.time()
    print("property=%s tier=%s VERIF_SEED=%d hashseed=%s runs=%d workers=%d repo=%s fingerprint=%s" % (
        prop, tier, seed, os.environ.get("PYTHONHASHSEED", "-"), nruns, workers, os.environ.get("VERIF_REPO", "/repo"), fingerprint_repo()))

    scns = []
    for i in range(nruns):
        rs = derive_seed(seed, prop, tier, i)
        rng = random.Random(rs)
        scn = check.gen_scenario(rng, tier, i)
        scn["seed"] = rs
        scn["index"] = i
        scns.append(scn)

    if args.digests is not None:
        sub = scns[:args.digests]
        res = run_parallel(_run_one, [(check, s_, None) for s_ in sub], workers, wall=check.run_wall)
        for i, r in enumerate(res):
            if r and r.get("ok"):
                print("DIGEST %s %d %s %s" % (prop, i, r["res"].get("digest"), ",".join(_sigs(r["res"])) or "-"))
            else:
                print("DIGEST %s %d ERROR %s" % (prop, i, (r or {}).get("err")))
        return 0

    if args.run_index is not None:
        scn = scns[args.run_index]
        r = run_parallel(_run_one, [(check, scn, None)], 1, wall=check.run_wall)[0]
        if not r.get("ok"):
            print("HARNESS-ERROR", r.get("err"), r.get("tb"))
            return 2
        for v in r["res"]["violations"]:
            path = write_replay(check, scn, Tape.unrle(r["res"]["tape"]), v["sig"], v, scn, None)
            print("VIOLATION property=%s replay=%s\n  sig=%s\n  detail=%s" % (
                prop, path, v["sig"], json.dumps(v.get("detail"), default=_json_default)[:1500]))
        print("summary:", json.dumps(r["res"].get("summary"), default=_json_default))
        return 1 if r["res"]["violations"] else 0

    jobs = [(check, s, None) for s in scns]
    results = run_parallel(_run_one, jobs, workers, wall=check.run_wall)

    # a child killed by the wall limit (machine overloaded) gets one more chance with little parallelism
    retry = [i for i, r in enumerate(results) if r and not r.get("ok") and r.get("timeout")]
    if retry and len(retry) <= max(8, len(results) // 10):
        again = run_parallel(_run_one, [jobs[i] for i in retry], max(2, workers // 4), wall=check.run_wall * 2)
        for i, r in zip(retry, again):
            if r and r.get("ok"):
                results[i] = r

    # determinism self-check: re-run a sample, digests must be identical
    ndet = min(len(scns), 6 if tier == "quick" else 24)
    det_idx = [int(i * len(scns) / ndet) for i in range(ndet)]
    det_res = run_parallel(_run_one, [jobs[i] for i in det_idx], workers, wall=check.run_wall)
    det_fail = []
    for k, i in enumerate(det_idx):
        a, b = results[i], det_res[k]
        if a and b and a.get("ok") and b.get("ok"):
            if a["res"].get("digest") != b["res"].get("digest"):
                det_fail.append(i)

    harness_errors = [(i, r) for i, r in enumerate(results) if not (r and r.get("ok"))]
    known = load_known_findings(prop)
    known_sigs = {e["signature"]: e for e in known if e.get("status", "open") == "open"}

    agg = Aggregate()
    viol_by_sig = {}
    for i, r in enumerate(results):
        if not (r and r.get("ok")):
            continue
        res = r["res"]
        agg.add(check, scns[i], res)
        for v in res.get("violations", []):
            viol_by_sig.setdefault(v["sig"], []).append((i, v))

    new_sigs = [s for s in viol_by_sig if s not in known_sigs]
    if args.triage:
        for s_ in sorted(viol_by_sig):
            i, v = viol_by_sig[s_][0]
            print("%4d  %s   e.g. run=%d %s" % (len(viol_by_sig[s_]), s_, i,
                                               json.dumps(v.get("detail"), default=_json_default)[:300]))
        print("runs=%d harness_errors=%d" % (len(results), len(harness_errors)))
        for i, r in harness_errors[:3]:
            print("HARNESS-ERROR run=%d: %s\n%s" % (i, (r or {}).get("err"), (r or {}).get("tb", "")[-1500:]))
        return 1 if new_sigs else 0
    exit_code = 0
    reported = []
    for s in sorted(viol_by_sig):
        if s in known_sigs:
            print("KNOWN-FINDING: property=%s %s (%d runs) -- %s" % (
                prop, s, len(viol_by_sig[s]), known_sigs[s].get("what", "")))
    if new_sigs:
        budget = (40.0 if tier == "quick" else 240.0) / max(1, min(len(new_sigs), 3))
        for s in sorted(new_sigs)[:3]:
            # prefer the cheapest failing run
            i, v = min(viol_by_sig[s], key=lambda iv: results[iv[0]]["res"].get("steps", 0))
            scn = scns[i]
            tape = Tape.unrle(results[i]["res"]["tape"])
            try:
                mscn, mtape = minimise(check, scn, tape, s, budget, workers)
            except Exception as e:      # minimisation must never hide a violation
                print("minimiser error: %r" % (e,))
                mscn, mtape = scn, tape
            path = write_replay(check, mscn, mtape, s, v, scn, tape)
            print("VIOLATION property=%s replay=%s" % (prop, path))
            print("  clause=%s sig=%s" % (v.get("clause"), s))
            print("  detail=%s" % (json.dumps(v.get("detail"), default=_json_default)[:1500],))
            reported.append(path)
        for s in sorted(new_sigs)[3:]:
            i, v = viol_by_sig[s][0]
            path = write_replay(check, scns[i], Tape.unrle(results[i]["res"]["tape"]), s, v, scns[i], None)
            print("VIOLATION property=%s replay=%s" % (prop, path))
            print("  clause=%s sig=%s (not minimised)" % (v.get("clause"), s))
        exit_code = 1

    if harness_errors:
        for i, r in harness_errors[:5]:
            print("HARNESS-ERROR run=%d seed=%d: %s" % (i, scns[i]["seed"], (r or {}).get("err")))
            if r and r.get("tb"):
                print(r["tb"])
        if exit_code == 0:
            exit_code = 2
    if det_fail:
        print("HARNESS-ERROR determinism: digests differ for runs %s" % det_fail)
        if exit_code == 0:
            exit_code = 2

    wall = time.time() - t0
    if not args.no_evidence:
        ev = agg.evidence(check, tier, seed, wall, len(viol_by_sig), new_sigs,
                          sorted(s for s in viol_by_sig if s in known_sigs),
                          len(harness_errors), det_idx, det_fail)
        os.makedirs(os.path.join(VERIF, "evidence"), exist_ok=True)
        with open(os.path.join(VERIF, "evidence", "%s.json" % prop), "w") as f:
            json.dump(ev, f, indent=1, default=_json_default, sort_keys=True)
    print("done property=%s runs=%d ok=%d violations(new)=%d known=%d harness_errors=%d "
          "wall=%.1fs sim_time=%.0fs steps=%d" % (
              prop, nruns, agg.n, len(new_sigs), len(viol_by_sig) - len(new_sigs),
              len(harness_errors), wall, agg.sim_time, agg.steps))
    return exit_code


def write_replay(check, scn, tape, sig, v, orig_scn, orig_tape):
    from .kernel import Tape
    d = os.environ.get("VERIF_REPLAY_DIR") or os.path.join(VERIF, "replays")
    os.makedirs(d, exist_ok=True)
    h = hashlib.sha256(sig.encode()).hexdigest()[:8]
    path = os.path.join(d, "%s-%s-%d.json" % (check.prop, h, orig_scn.get("seed", 0)))
    doc = {"property": check.prop, "signature": sig, "clause": v.get("clause"),
           "detail": v.get("detail"), "scenario": scn, "tape": Tape.rle(tape),
           "tape_len": len(tape), "tape_nonzero": sum(1 for x in tape if x),
           "original_seed": orig_scn.get("seed"), "fingerprint": fingerprint_repo(),
           "pythonhashseed": int(os.environ.get("PYTHONHASHSEED", "0") or 0),
           "original_tape_len": len(orig_tape) if orig_tape is not None else None}
    with open(path, "w") as f:
        json.dump(doc, f, indent=1, default=_json_default)
    return path


def replay(check, path):
    from .kernel import Tape
    with open(path) as f:
        doc = json.load(f)
    tape = Tape.unrle(doc["tape"])
    out = run_parallel(_run_one, [(check, doc["scenario"], tape)] * 2, 2, wall=check.run_wall * 2)
    r = out[0]
    if not (r and r.get("ok")):
        print("HARNESS-ERROR replay failed to run: %s" % ((r or {}).get("err"),))
        if r and r.get("tb"):
            print(r["tb"])
        return 2
    sigs = _sigs(r["res"])
    same_digest = out[1] and out[1].get("ok") and out[1]["res"].get("digest") == r["res"].get("digest")
    print("replay %s: signatures=%s digest=%s deterministic=%s" % (
        path, sigs, r["res"].get("digest", "")[:16], same_digest))
    if doc["signature"] in sigs:
        for v in r["res"]["violations"]:
            if v["sig"] == doc["signature"]:
                print("  clause=%s" % v.get("clause"))
                print("  detail=%s" % json.dumps(v.get("detail"), default=_json_default)[:3000])
                break
        for line in r["res"].get("tail", [])[-int(os.environ.get("VERIF_TAIL", "25")):]:
            print("   | " + line)
        for th in r["res"].get("threads", []):
            print("   thread %s" % (th,))
        print("VIOLATION property=%s replay=%s" % (check.prop, path))
        return 1
    print("replay did not reproduce signature %s" % doc["signature"])
    return 0


class Aggregate(object):
    def __init__(self):
        self.n = 0
        self.steps = 0
        self.line_steps = 0
        self.sync_steps = 0
        self.ctx = 0
        self.sim_time = 0.0
        self.wall_in_runs = 0.0
        self.faults = {}
        self.probes = {}
        self.sched_sigs = set()
        self.nontrivial_sigs = set()
        self.states = set()
        self.samples = []
        self.policies = {}
        self.knob_values = {}
        self.preempt_line = 0
        self.preempt_opcode = 0
        self.halt = {}

    def add(self, check, scn, res):
        self.n += 1
        self.steps += res.get("steps", 0)
        self.line_steps += res.get("line_steps", 0)
        self.sync_steps += res.get("sync_steps", 0)
        self.ctx += res.get("ctx_switches", 0)
        self.sim_time += res.get("sim_time", 0.0)
        self.wall_in_runs += res.get("wall", 0.0)
        self.preempt_line += res.get("preempt_line", 0)
        self.preempt_opcode += res.get("preempt_opcode", 0)
        for k, v in res.get("faults", {}).items():
            self.faults[k] = self.faults.get(k, 0) + v
        for k, v in res.get("probes", {}).items():
            self.probes[k] = self.probes.get(k, 0) + v
        sig = res.get("sched_sig")
        if sig:
            self.sched_sigs.add(sig)
            if check.nontrivial(res):
                self.nontrivial_sigs.add(sig)
        for s in res.get("abstract_states", []):
            self.states.add(s if isinstance(s, str) else json.dumps(s))
        pol = (scn.get("sched") or {}).get("policy", "-")
        self.policies[pol] = self.policies.get(pol, 0) + 1
        for k, v in (scn.get("knobs") or {}).items():
            self.knob_values.setdefault(k, set()).add(v)
        hr = res.get("halt_reason") or "completed"
        self.halt[hr] = self.halt.get(hr, 0) + 1
        if len(self.samples) < 3:
            self.samples.append(check.sample(scn, res))

    def evidence(self, check, tier, seed, wall, nviol_sigs, new_sigs, known_seen,
                 nharness, det_idx, det_fail):
        hours = max(wall, 1e-6) / 3600.0
        cov = {
            "evaluations": self.n,
            "distinct_nontrivial": len(self.nontrivial_sigs),
            "rule": check.rule,
            "samples": self.samples,
            "simulated_runs": self.n,
            "runs_per_hour": int(self.n / hours),
            "seeds_per_hour": int(self.n / hours),
            "simulated_seconds": round(self.sim_time, 3),
            "total_steps": self.steps,
            "line_steps": self.line_steps,
            "sync_steps": self.sync_steps,
            "context_switches": self.ctx,
            "preemptions_at_source_line": self.preempt_line,
            "preemptions_at_bytecode": self.preempt_opcode,
            "distinct_schedule_signatures": len(self.sched_sigs),
            "distinct_abstract_states": len(self.states),
            "fault_kinds_fired": self.faults,
            "probes_hit": self.probes,
            "scheduling_policies": self.policies,
            "knob_values_drawn": {k: sorted(v) for k, v in self.knob_values.items()},
            "run_endings": self.halt,
            "components_real_code": check.components_real,
            "components_stubbed": check.components_stub,
            "determinism_selfcheck": {"runs_repeated": len(det_idx), "digest_mismatches": len(det_fail)},
            "violation_signatures_new": sorted(new_sigs),
            "known_findings_seen": known_seen,
            "harness_errors": nharness,
            "repo_fingerprint": fingerprint_repo(),
        }
        return {
            "property_id": check.prop,
            "tier": tier,
            "seed": seed,
            "level": "exploration",
            "coverage": cov,
            "assumptions": check.assumptions,
            "wall_s": round(wall, 2),
            "violations": len(new_sigs),
        }


def base_result(sim, violations, summary=None, extra=None):
    """Common fields of a run result, taken from the Sim."""
    from .kernel import Tape
    res = {
        "violations": violations,
        "digest": sim.digest(),
        "tape": Tape.rle(sim.tape),
        "steps": sim.steps,
        "line_steps": sim.line_steps,
        "sync_steps": sim.sync_steps,
        "ctx_switches": sim.ctx_switches,
        "preempt_line": sim.preempt_line,
        "preempt_opcode": sim.preempt_opcode,
        "sim_time": sim.now,
        "sched_sig": sim.sched_sig.hexdigest()[:16] if sim.sched_sig_n else None,
        "sched_switches": sim.sched_sig_n,
        "probes": dict(sim.probes),
        "halt_reason": sim.halt_reason,
        "summary": summary,
        "tail": list(sim.tail)[-120:] if violations else [],
        "threads": [(t.role, t.state, repr(t.wait_on), type(t.exc).__name__ if t.exc else None)
                    for t in sim.threads] if violations else [],
    }
    if extra:
        res.update(extra)
    if getattr(sim, "clock_steps", 0):
        res["faults"] = dict(res.get("faults") or {}, wall_clock_step=sim.clock_steps)
    return res
