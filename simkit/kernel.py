# -*- coding: utf-8 -*-
"""
simkit.kernel -- deterministic scheduler for real Python threads.

Exactly one thread runs at any moment.  Every other thread is parked on its
private baton (a real lock).  Which thread runs next, every delay and every
fault is obtained through ``Sim.choose`` which, in search mode, draws from a
PRNG and records the value on a tape and, in replay mode, reads the tape.
Value 0 is always the "default / simplest" alternative, so an edited tape
(zeroed blocks, truncation) stays meaningful.

Virtual time: a heap of (time, seq, callback); every step charges a CPU
quantum; when nothing is runnable the clock jumps to the next event.
"""

import _thread
import heapq
import hashlib
import sys
import os
from collections import deque

NEW, RUNNABLE, BLOCKED, DONE = "new", "runnable", "blocked", "done"


class SimStop(BaseException):
    """Raised inside a simulated thread to unwind it (halt / kill)."""


class SimHang(BaseException):
    """Raised inside a thread that computes without ever reaching a
    synchronisation point (non-terminating pure computation)."""


class SimThread(object):
    __slots__ = ("sim", "tid", "name", "role", "target", "args", "kwargs",
                 "daemon", "state", "wait_on", "timed_out", "wait_token",
                 "_baton", "exc", "exc_tb", "lines_since_prim", "steps",
                 "started_at", "ended_at", "library", "_real_started",
                 "block_since", "result", "priority", "stall_plan", "last_ran", "group")

    def __init__(self, sim, target=None, name=None, args=(), kwargs=None,
                 daemon=None, role=None, library=False):
        self.sim = sim
        self.tid = len(sim.threads) + 1
        self.name = name or ("Thread-%d" % self.tid)
        self.role = role or self.name
        self.target = target
        self.args = args
        self.kwargs = kwargs or {}
        self.daemon = daemon
        self.state = NEW
        self.wait_on = None
        self.timed_out = False
        self.wait_token = 0
        self._baton = _thread.allocate_lock()
        self._baton.acquire()
        self.exc = None
        self.exc_tb = None
        self.lines_since_prim = 0
        self.steps = 0
        self.started_at = None
        self.ended_at = None
        self.library = library
        self._real_started = False
        self.block_since = None
        self.result = None
        self.priority = 0
        self.last_ran = 0
        # threads inherit the "group" of their creator (lets a harness keep a bystander node's
        # threads and sockets apart from those of the node under test)
        self.group = getattr(getattr(sim, "cur", None), "group", None)
        self.stall_plan = sorted(sim.stall_plan.get(self.role, ())) if sim.stall_plan else None
        sim.threads.append(self)

    # -- public thread API (subset of threading.Thread) -------------------
    def start(self):
        sim = self.sim
        if self.state != NEW:
            raise RuntimeError("threads can only be started once")
        self.state = RUNNABLE
        self.started_at = sim.now
        sim.log("thread.start", self.role)
        if not Sim._stack_set:
            # deep (adversarial) recursion under sys.settrace needs far more C stack than the 8 MB default
            try:
                _thread.stack_size(512 * 1024 * 1024)
            except (ValueError, RuntimeError):
                pass
            Sim._stack_set = True
        _thread.start_new_thread(self._bootstrap, ())
        self._real_started = True
        sim.sync_point("thread.start")

    def _bootstrap(self):
        sim = self.sim
        self._baton.acquire()            # wait until first scheduled
        try:
            if sim.killed:
                return
            sys.settrace(sim._gtrace)
            try:
                self.result = self.run()
            except SimStop:
                pass
            except SimHang as e:
                self.exc = e
                sim.log("thread.hang", self.role)
                sim.on_thread_exception(self, e)
            except BaseException as e:      # noqa -- library exceptions are BaseException
                self.exc = e
                self.exc_tb = sys.exc_info()[2]
                sim.log("thread.exc", self.role, type(e).__name__)
                sim.on_thread_exception(self, e)
        finally:
            sys.settrace(None)
            if not sim.killed:
                sim._thread_exit(self)

    def run(self):
        if self.target is not None:
            return self.target(*self.args, **self.kwargs)

    def join(self, timeout=None):
        sim = self.sim
        sim.sync_point("thread.join")
        if self.state == DONE:
            return
        if self.state == NEW:
            raise RuntimeError("cannot join thread before it is started")
        deadline = None if timeout is None else sim.now + max(0.0, timeout)
        while self.state != DONE:
            rem = None
            if deadline is not None:
                rem = deadline - sim.now
                if rem <= 0:
                    return
            sim.block(("join", self.tid), rem)

    def is_alive(self):
        self.sim.prim()
        return self.state in (RUNNABLE, BLOCKED)

    @property
    def ident(self):
        return self.tid if self.state != NEW else None

    def getName(self):
        return self.name

    def setName(self, n):
        self.name = n

    def isDaemon(self):
        return bool(self.daemon)

    def setDaemon(self, d):
        self.daemon = d

    def __repr__(self):
        return "<SimThread %s %s>" % (self.role, self.state)


class Tape(object):
    """Recorded run-time choices.  Stored run-length encoded on disk."""

    @staticmethod
    def rle(values):
        out = []
        i = 0
        n = len(values)
        while i < n:
            v = values[i]
            j = i
            while j < n and values[j] == v:
                j += 1
            if j - i > 2 or v == 0 and j - i > 1:
                out.append([v, j - i])
            else:
                out.extend([v] * (j - i))
            i = j
        return out

    @staticmethod
    def unrle(enc):
        out = []
        for e in enc:
            if isinstance(e, list):
                out.extend([e[0]] * e[1])
            else:
                out.append(e)
        return out


class Sim(object):
    _stack_set = False

    def __init__(self, rng, tape_in=None, quantum=2e-6, max_steps=3_000_000,
                 horizon=120.0, p_sync=0.15, p_line=0.0, opcode_funcs=(),
                 trace_root=None, pure_line_cap=400_000, policy="random",
                 burst=1, epoch=1_700_000_000.0):
        self.rng = rng
        self.tape_in = tape_in
        self.tape_pos = 0
        self.tape = []
        self.now = 0.0
        self.epoch = epoch
        self.wall_offset = 0.0
        self.clock_steps = 0
        self.steps = 0
        self.line_steps = 0
        self.sync_steps = 0
        self.ctx_switches = 0
        self.preempt_line = 0
        self.preempt_opcode = 0
        self.seq = 0
        self.heap = []
        self.threads = []
        self.cur = None
        self.main = None
        self.quantum = quantum
        self.max_steps = max_steps
        self.horizon = horizon
        self.p_sync = p_sync
        self.p_line = p_line
        self.policy = policy
        self.observers = []
        self.burst = burst
        self.opcode_funcs = set(opcode_funcs)
        self.trace_root = trace_root
        self.pure_line_cap = pure_line_cap
        self.halted = False
        self.halt_reason = None
        self.killed = False
        self._code_flags = {}
        self._hash = hashlib.sha256()
        self.tail = deque(maxlen=400)
        self.log_count = 0
        self.obj_counter = {}
        self.thread_exceptions = []
        self.hangs = []
        self.sched_sig = hashlib.sha256()
        self.sched_sig_n = 0
        self.probes = {}
        self.stalled = {}        # tid -> until
        self.stall_plan = {}     # role -> [(thread-local step, duration)]
        self.stalls_fired = 0
        self.in_event = False
        self._untraced = 0
        self._streak = 0
        self.func_stalls = {}    # qualname -> [[k-th call, steps after entry, duration]]
        self.func_calls = {}
        self.func_watch = set()
        self.func_len = {}
        self._entry_steps = {}
        self.step_triggers = []  # [thread role substring, thread-local step, callback] fired once (event context rules apply)
        self._gap_is_skip = True
        self._line_countdown = self._draw_line_gap()
        self.listeners_on_exc = []
        self.opcode_hits = 0

    # ------------------------------------------------------------------
    # choices / tape
    # ------------------------------------------------------------------
    def choose(self, kind, n, p0=None):
        """Return an int in [0, n).  0 is the default alternative.
        p0: probability of the default in search mode (None -> uniform)."""
        if n <= 1:
            return 0
        if self.tape_in is not None:
            if self.tape_pos < len(self.tape_in):
                v = self.tape_in[self.tape_pos]
                if not (0 <= v < n):
                    v = 0
            else:
                v = 0
            self.tape_pos += 1
        else:
            if p0 is None:
                v = self.rng.randrange(n)
            elif self.rng.random() < p0:
                v = 0
            else:
                v = 1 + self.rng.randrange(n - 1)
        self.tape.append(v)
        return v

    def choose_float(self, kind, lo, hi, buckets=64, p0=None):
        """A delay in [lo, hi]; bucketised so that it fits the tape.
        Value 0 -> lo."""
        v = self.choose(kind, buckets, p0)
        return lo + (hi - lo) * v / (buckets - 1)

    # ------------------------------------------------------------------
    # logging (never draws, never reads a real clock)
    # ------------------------------------------------------------------
    def log(self, *rec):
        self.log_count += 1
        line = "%d %.9f %s %s" % (self.steps, self.now,
                                  self.cur.role if self.cur else "-",
                                  " ".join(str(r) for r in rec))
        self._hash.update(line.encode())
        self._hash.update(b"\n")
        self.tail.append(line)

    def digest(self):
        return self._hash.hexdigest()

    def probe(self, name, n=1):
        self.probes[name] = self.probes.get(name, 0) + n

    def name_obj(self, prefix):
        c = self.obj_counter.get(prefix, 0) + 1
        self.obj_counter[prefix] = c
        return "%s%d" % (prefix, c)

    # ------------------------------------------------------------------
    # events / time
    # ------------------------------------------------------------------
    def at(self, when, cb):
        self.seq += 1
        ev = [when, self.seq, cb]
        heapq.heappush(self.heap, ev)
        return ev

    def after(self, delay, cb):
        return self.at(self.now + max(0.0, delay), cb)

    @staticmethod
    def cancel(ev):
        ev[2] = None

    def _fire_due(self):
        heap = self.heap
        while heap and heap[0][0] <= self.now:
            ev = heapq.heappop(heap)
            cb = ev[2]
            if cb is not None:
                self.in_event = True
                try:
                    cb()
                finally:
                    self.in_event = False

    def time(self):
        # wall clock: may be stepped (forwards or backwards) by a clock fault; monotonic() never is
        return self.epoch + self.now + self.wall_offset

    def wall_clock(self):
        return self.epoch + self.now + self.wall_offset

    def step_wall_clock(self, delta):
        """Clock fault: the wall clock jumps by delta seconds (NTP step, VM resume).  Safe in
        event context."""
        self.wall_offset += delta
        self.clock_steps += 1
        self.log("clock.step", "%.3f" % delta)

    def monotonic(self):
        return self.now

    # ------------------------------------------------------------------
    # thread state
    # ------------------------------------------------------------------
    def wake(self, t, timed_out=False):
        if t.state == BLOCKED:
            t.state = RUNNABLE
            t.timed_out = timed_out
            t.wait_token += 1
            t.block_since = None

    def _runnable(self):
        now = self.now
        if self.stalled:
            return [t for t in self.threads if t.state == RUNNABLE and
                    self.stalled.get(t.tid, 0.0) <= now]
        return [t for t in self.threads if t.state == RUNNABLE]

    def _advance_until_runnable(self):
        """No thread can run: jump the clock to the next event(s)."""
        while True:
            r = self._runnable()
            if r:
                return r
            if self.stalled:
                # a stalled runnable thread: jump to the end of its stall
                pend = [u for tid, u in self.stalled.items() if u > self.now
                        and any(t.tid == tid and t.state == RUNNABLE for t in self.threads)]
                nxt_stall = min(pend) if pend else None
            else:
                nxt_stall = None
            heap = self.heap
            while heap and heap[0][2] is None:
                heapq.heappop(heap)
            if not heap and nxt_stall is None:
                # total deadlock: nothing will ever happen.  Hand control to main.
                self.halted = True
                self.halt_reason = self.halt_reason or "deadlock"
                m = self.main
                if m.state == BLOCKED:
                    self.wake(m)
                    continue
                raise RuntimeError("simulation deadlock with main thread %r" % m)
            if heap and (nxt_stall is None or heap[0][0] <= nxt_stall):
                ev = heapq.heappop(heap)
                if ev[0] > self.now:
                    self.now = ev[0]
                cb = ev[2]
                if cb is not None:
                    self.in_event = True
                    try:
                        cb()
                    finally:
                        self.in_event = False
            else:
                self.now = nxt_stall
            if self.now >= self.horizon and not self.halted:
                self._halt("horizon")

    def _halt(self, reason):
        if not self.halted:
            self.halted = True
            self.halt_reason = reason
            self.log("halt", reason)
            m = self.main
            if m is not None and m.state == BLOCKED:
                self.wake(m)

    def _switch_to(self, nxt):
        cur = self.cur
        if nxt is cur:
            return
        self.ctx_switches += 1
        self.cur = nxt
        nxt._baton.release()
        cur._baton.acquire()
        if self.killed:
            raise SimStop()

    def _pick(self, runnable, kind):
        cur = self.cur
        if self.halted:
            m = self.main
            if m in runnable:
                return m
        if len(runnable) == 1:
            return runnable[0]
        p0 = None
        if cur in runnable:
            others = [t for t in runnable if t is not cur]
            if kind == "line":
                order = others           # a pre-emption was decided: leave cur
            else:
                order = [cur] + others
                if kind != "forced":
                    p0 = 1.0 - self.p_sync
        else:
            order = runnable
        n = len(order)
        if n == 1:
            return order[0]
        if self.policy == "prio" and self.tape_in is None:
            # priority policy: highest priority runnable thread runs
            best = max(order, key=lambda t: (t.priority, -t.tid))
            v = order.index(best)
            self.tape.append(v)
            return best
        return order[self.choose("sched", n, p0)]

    STREAK_CAP = 4000

    def _reschedule(self, kind):
        """Current thread is at a yield point (runnable) or has just blocked."""
        cur = self.cur
        if self.heap and self.heap[0][0] <= self.now:
            self._fire_due()
        r = self._runnable()
        if not r:
            r = self._advance_until_runnable()
        nxt = self._pick(r, kind)
        # starvation guard (an OS scheduler is pre-emptive): a thread that has kept the CPU for
        # STREAK_CAP consecutive yield points while others were runnable is descheduled in favour of
        # the runnable thread that has waited longest.  Deterministic; matters for spin loops and for
        # minimised tapes whose default choice is "stay on the current thread".
        if nxt is cur and len(r) > 1 and not self.halted:
            self._streak += 1
            if self._streak > self.STREAK_CAP:
                others = [t for t in r if t is not cur]
                nxt = min(others, key=lambda t: (t.last_ran, t.tid))
        if nxt is not cur:
            self._streak = 0
            cur.last_ran = self.steps
        if nxt is not cur:
            self.sched_sig.update(("%s>%s@%s;" % (cur.role, nxt.role, kind)).encode())
            self.sched_sig_n += 1
            self.log("switch", nxt.role, kind)
            if self.observers:
                # invariants evaluated at every context switch, i.e. at every instant at which another
                # thread could look at the shared state (event-context rules: plain attribute reads only)
                for ob in self.observers:
                    ob()
            self._switch_to(nxt)

    def _thread_exit(self, t):
        """Called in the exiting real thread (it holds the baton)."""
        t.state = DONE
        t.ended_at = self.now
        self.log("thread.exit", t.role)
        for o in self.threads:
            if o.state == BLOCKED and o.wait_on == ("join", t.tid):
                self.wake(o)
        r = self._runnable()
        if not r:
            r = self._advance_until_runnable()
        nxt = self._pick(r, "forced")
        self.cur = nxt
        self.ctx_switches += 1
        nxt._baton.release()

    def on_thread_exception(self, t, e):
        self.thread_exceptions.append((t, e))
        if isinstance(e, SimHang):
            self.hangs.append(t)

    # ------------------------------------------------------------------
    # yield points
    # ------------------------------------------------------------------
    def _tick(self):
        self.steps += 1
        self.now += self.quantum
        if self.steps >= self.max_steps and not self.halted:
            self._halt("max_steps")
        elif self.now >= self.horizon and not self.halted:
            self._halt("horizon")

    def prim(self):
        """A primitive that is not a switch point but counts as progress."""
        t = self.cur
        if t is not None:
            t.lines_since_prim = 0

    def sync_point(self, kind):
        """Yield point at a synchronisation / OS operation."""
        if self.killed:
            raise SimStop()
        t = self.cur
        if t is None:
            return
        if self.in_event:
            raise RuntimeError("harness bug: simulator primitive %r used from an event callback" % (kind,))
        t.lines_since_prim = 0
        t.steps += 1
        self.sync_steps += 1
        self._tick()
        self.log(kind)
        if t.stall_plan:
            self._maybe_stall(t)
        if self.halted and t is not self.main:
            # hand control to main as soon as possible
            self._reschedule("forced")
            return
        self._reschedule("sync")

    def add_step_trigger(self, role_part, steps_from_now, cb):
        """Fire cb() (event-context rules: no simulator primitives) when the
        first live thread whose role contains role_part has executed
        steps_from_now more steps."""
        for t in self.threads:
            if role_part in t.role and t.state not in (DONE, NEW) and not t.group:
                self.step_triggers.append([t, t.steps + steps_from_now, cb])
                if t.stall_plan is None:
                    t.stall_plan = []
                t.stall_plan = t.stall_plan or [(1 << 60, 0.0)]   # make the per-step hook active
                return True
        return False

    def _maybe_stall(self, t):
        if self.step_triggers:
            for trg in list(self.step_triggers):
                if trg[0] is t and t.steps >= trg[1]:
                    self.step_triggers.remove(trg)
                    self.log("trigger", t.role)
                    self.in_event = True
                    try:
                        trg[2]()
                    finally:
                        self.in_event = False
        """Stalled-thread fault: the OS deschedules this thread for a while."""
        sp = t.stall_plan
        while sp and t.steps >= sp[0][0]:
            at, dur = sp.pop(0)
            self.stalled[t.tid] = max(self.stalled.get(t.tid, 0.0), self.now + dur)
            self.stalls_fired += 1
            self.log("stall", t.role, dur)
        if t.tid in self.stalled and self.stalled[t.tid] > self.now and t is self.cur:
            # let somebody else run (or time pass) until the stall is over
            self._reschedule("forced")

    def block(self, waitobj, timeout=None):
        """Block the current thread until woken or timed out.
        Returns True if it timed out."""
        if self.killed:
            raise SimStop()
        if self.in_event:
            raise RuntimeError("harness bug: blocking primitive used from an event callback")
        t = self.cur
        t.lines_since_prim = 0
        t.state = BLOCKED
        t.wait_on = waitobj
        t.timed_out = False
        t.block_since = self.now
        t.wait_token += 1
        tok = t.wait_token
        ev = None
        if timeout is not None:
            def fire(t=t, tok=tok):
                if t.state == BLOCKED and t.wait_token == tok:
                    self.wake(t, timed_out=True)
            ev = self.after(timeout, fire)
        self._tick()
        self.log("block", waitobj if isinstance(waitobj, str) else waitobj[0])
        self._reschedule("block")
        if ev is not None:
            ev[2] = None
        t.wait_on = None
        return t.timed_out

    def sleep(self, d):
        if d is None or d < 0:
            d = 0
        self.block(("sleep",), d)

    # ------------------------------------------------------------------
    # tracing: line / opcode pre-emption inside bromelia frames
    # ------------------------------------------------------------------
    GAP_BLOCK = 4096

    def _draw_line_gap(self):
        """Number of line steps until the next pre-emption decision.  Tape
        value g in 1..4095 means "pre-empt after g line steps"; 0 means "no
        pre-emption in the next 4096 line steps" (so zeroing a tape entry
        removes one pre-emption but keeps later entries meaningful)."""
        p = self.p_line
        if self.tape_in is not None:
            v = self.choose("gap", self.GAP_BLOCK)
        elif p <= 0.0:
            v = 0
            self.tape.append(0)
        else:
            import math
            u = self.rng.random()
            g = int(math.log(1.0 - u) / math.log(1.0 - p)) + 1 if p < 1.0 else 1
            v = g if g < self.GAP_BLOCK else 0
            self.tape.append(v)
        if v == 0:
            self._gap_is_skip = True
            return self.GAP_BLOCK
        self._gap_is_skip = False
        return v

    def _classify(self, code):
        fn = code.co_filename
        root = self.trace_root
        flag = 0
        if root is not None and fn.startswith(root):
            flag = 1
            qn = getattr(code, "co_qualname", code.co_name)
            if qn in self.opcode_funcs:
                flag = 2
        self._code_flags[code] = flag
        return flag

    def untraced(self):
        """Context manager: bromelia code called inside is not metered and not
        pre-empted (for harness-side use of library helpers, e.g. parsing an
        arriving message 'on the wire')."""
        sim = self

        class _U(object):
            def __enter__(self_):
                sim._untraced += 1

            def __exit__(self_, *a):
                sim._untraced -= 1
        return _U()

    def _gtrace(self, frame, event, arg):
        if self._untraced:
            return None
        code = frame.f_code
        flag = self._code_flags.get(code)
        if flag is None:
            flag = self._classify(code)
        if flag == 0:
            return None
        if self.func_watch:
            qn = getattr(code, "co_qualname", code.co_name)
            if qn in self.func_watch and event == "call":
                # measured length (in steps of the calling thread) of the watched functions: the longest completed call
                self._entry_steps[id(frame)] = (qn, self.cur.steps)
        if self.func_stalls:
            # function-entry anchored stalled-thread fault: the k-th call of a named
            # function is descheduled j steps after entry
            qn = getattr(code, "co_qualname", code.co_name)
            plan = self.func_stalls.get(qn)
            if plan:
                n = self.func_calls.get(qn, 0) + 1
                self.func_calls[qn] = n
                t = self.cur
                for ent in list(plan):
                    # [k, j, dur]: the k-th call; [None, j, dur, t]: the first call at or after simulated time t;
                    # [None, j, dur, t, m]: the m-th call at or after t (entries of one group share the countdown)
                    if ent[0] is None and len(ent) > 4 and self.now >= ent[3] and ent[4] > 1:
                        ent[4] -= 1
                        continue
                    if ent[0] == n or (ent[0] is None and len(ent) > 3 and self.now >= ent[3]):
                        plan.remove(ent)
                        sp = [p for p in (t.stall_plan or []) if p[0] < (1 << 59)]
                        j = ent[1]
                        if isinstance(j, float):
                            # a fraction of the function's measured length (fault placement along a baseline)
                            j = 1 + int(j * self.func_len.get(qn, 200))
                        sp.append((t.steps + j, ent[2]))
                        t.stall_plan = sorted(sp)
                        self.probe("func_stall:" + qn)
        if flag == 2:
            frame.f_trace_opcodes = True
        return self._ltrace

    def _ltrace(self, frame, event, arg):
        if event == "return" and self._entry_steps:
            ent = self._entry_steps.pop(id(frame), None)
            if ent is not None:
                n_ = self.cur.steps - ent[1]
                if n_ > self.func_len.get(ent[0], 0):
                    self.func_len[ent[0]] = n_
            return self._ltrace
        if event == "line" or event == "opcode":
            t = self.cur
            self.steps += 1
            self.line_steps += 1
            t.steps += 1
            self.now += self.quantum
            n = t.lines_since_prim + 1
            t.lines_since_prim = n
            if t.stall_plan:
                self._maybe_stall(t)
            if n > self.pure_line_cap:
                t.lines_since_prim = 0
                raise SimHang("no synchronisation point in %d line steps at %s:%d" % (
                    n, frame.f_code.co_filename, frame.f_lineno))
            self._line_countdown -= 1
            if self._line_countdown <= 0:
                skip = self._gap_is_skip
                self._line_countdown = self._draw_line_gap()
                if not skip and not self.halted and not self.killed:
                    r = self._runnable()
                    if len(r) > 1:
                        if event == "opcode":
                            self.preempt_opcode += 1
                        else:
                            self.preempt_line += 1
                        self.log("preempt", os.path.basename(frame.f_code.co_filename),
                                 frame.f_lineno, event)
                        self._reschedule("line")
            if self.steps >= self.max_steps and not self.halted:
                self._halt("max_steps")
            if self.halted and t is not self.main:
                if self.heap and self.heap[0][0] <= self.now:
                    self._fire_due()
                self._reschedule("forced")
            elif self.heap and self.heap[0][0] <= self.now:
                self._fire_due()
        return self._ltrace

    # ------------------------------------------------------------------
    # running
    # ------------------------------------------------------------------
    def run_main(self, fn):
        """Run ``fn(sim)`` as the main simulated thread in the calling real
        thread.  Returns fn's result.  Other threads stay parked afterwards;
        the caller is expected to _exit the process."""
        m = SimThread(self, name="main", role="main")
        m.state = RUNNABLE
        m.started_at = 0.0
        self.main = m
        self.cur = m
        old = sys.gettrace()
        sys.settrace(self._gtrace)
        try:
            return fn(self)
        finally:
            sys.settrace(old)
            self.killed = True

    # helper for harness code running in sim threads
    def spawn(self, fn, *args, role=None, **kwargs):
        t = SimThread(self, target=fn, args=args, kwargs=kwargs, role=role,
                      name=role)
        t.start()
        return t

    def wait_until(self, pred, timeout, poll=None):
        """Main-thread helper: sleep in simulated time until pred() or
        timeout.  Returns True if pred() became true."""
        deadline = self.now + timeout
        if poll is None:
            poll = max(timeout / 200.0, 1e-4)
        while True:
            if pred():
                return True
            if self.halted or self.now >= deadline:
                return False
            self.sleep(min(poll, deadline - self.now))
