# -*- coding: utf-8 -*-
"""
simkit.net -- simulated TCP byte streams, non-blocking sockets and an
epoll-like selector on top of the deterministic kernel.

Legal behaviours only (Linux/TCP): arbitrary segmentation and coalescing,
partial writes, delayed delivery (in order), connect ack / refuse / never,
orderly EOF at any byte offset, reset.  No loss, duplication or re-ordering
inside a stream.
"""

import errno
import selectors as _real_selectors
import types

EVENT_READ = 1
EVENT_WRITE = 2
SelectorKey = _real_selectors.SelectorKey


class NetConfig(object):
    def __init__(self, **kw):
        self.min_latency = 0.0002
        self.max_latency = 0.003
        self.p_partial_write = 0.0      # probability that a send is cut short
        self.p_one_byte_write = 0.0
        self.p_fragment = 0.0           # probability that accepted bytes are delivered in >1 piece
        self.max_fragments = 4
        self.connect_delay = (0.0005, 0.004)
        self.connect_outcome = "ack"    # ack | refuse | never
        self.personality = "linux"      # linux | windows
        self.connect_timeout = None     # seconds after which a connect that never completes fails (ETIMEDOUT)
        self.__dict__.update(kw)


class Endpoint(object):
    """One end of an established (or establishing) connection."""
    pass


class SimSocket(object):
    _ids = 0

    def __init__(self, net, family=None, type_=None, proto=0):
        self.net = net
        self.sim = net.sim
        self.name = net.sim.name_obj("S")
        self.state = "new"      # new, connecting, connected, refused, listening, closed
        self.peer = None        # the other SimSocket
        self.rbuf = bytearray()
        self.eof = False        # peer has closed, all data delivered
        self.rst = False
        self.selectors = []     # selectors this socket is registered in
        self.blocking = True
        self.addr = None
        self.accept_q = []
        self.on_event = None    # callback for event-driven (scripted) owners
        self.tx_bytes = bytearray()   # everything this socket accepted from send()
        self.tx_log = []              # (event seq, sim time, nbytes)
        self.rx_total = 0
        self.last_deliver = 0.0       # for ordering of deliveries to the peer
        self.refused_reported = False
        self.write_blocked_until = 0.0
        self.owner = None       # "node" | "peer"
        self.group = None       # group of the creating thread (bystander separation)
        self.closed_at = None
        self.inflight = 0
        net.sockets.append(self)

    # ----- helpers ---------------------------------------------------
    def _kick(self):
        for sel in self.selectors:
            sel._kick()
        if self.on_event is not None:
            self.on_event(self)

    def readable(self):
        if self.state == "listening":
            return bool(self.accept_q)
        if self.state in ("connected",):
            return bool(self.rbuf) or self.eof or self.rst
        if self.state == "refused":
            return True
        return False

    def writable(self):
        if self.state == "connected":
            return self.sim.now >= self.write_blocked_until
        if self.state == "refused":
            return True
        return False

    # ----- socket API ------------------------------------------------
    def setblocking(self, flag):
        self.sim.prim()
        self.blocking = bool(flag)

    def setsockopt(self, *a):
        self.sim.prim()

    def fileno(self):
        return -1 if self.state == "closed" else 1000 + int(self.name[1:])

    def bind(self, addr):
        self.sim.prim()
        if addr in self.net.listeners and self.net.listeners[addr].state != "closed":
            raise OSError(errno.EADDRINUSE, "Address already in use")
        self.addr = addr

    def listen(self, backlog=0):
        self.sim.sync_point("sock.listen")
        self.state = "listening"
        self.net.listeners[self.addr] = self
        self.net.on_listen(self)

    def accept(self):
        self.sim.sync_point("sock.accept")
        if self.state != "listening":
            raise OSError(errno.EINVAL, "Invalid argument")
        if not self.accept_q:
            raise BlockingIOError(errno.EAGAIN, "Resource temporarily unavailable")
        s = self.accept_q.pop(0)
        return s, ("127.0.0.1", 40000 + int(s.name[1:]))

    def connect_ex(self, addr):
        self.sim.sync_point("sock.connect")
        self.addr = addr
        if self.net.cfg.connect_outcome == "unreachable":
            # the failure is reported by connect() itself (no route to the peer's network: ENETUNREACH straight
            # away); checked against the real kernel here: the socket stays unconnected, nothing is pending, and a
            # later send() raises EPIPE
            self.state = "refused"
            self.refused_reported = True
            self.net.stats["connect_refused"] += 1
            self.net.stats["connect_unreachable"] = self.net.stats.get("connect_unreachable", 0) + 1
            self.sim.log("connect.unreachable", self.name)
            self._kick()
            if self.net.cfg.personality == "windows":
                return 10051
            return errno.ENETUNREACH
        self.state = "connecting"
        self.net.start_connect(self, addr)
        return errno.EINPROGRESS

    def send(self, data):
        sim = self.sim
        sim.sync_point("sock.send")
        st = self.state
        if st == "closed":
            raise OSError(errno.EBADF, "Bad file descriptor")
        if st == "connecting" or st == "new":
            if self.net.cfg.personality == "windows":
                raise OSError(10057, "A request to send or receive data was disallowed because the socket is not connected")
            if st == "new":
                raise BrokenPipeError(errno.EPIPE, "Broken pipe")
            raise BlockingIOError(errno.EAGAIN, "Resource temporarily unavailable")
        if st == "refused":
            if self.net.cfg.personality == "windows":
                raise OSError(10057, "A request to send or receive data was disallowed because the socket is not connected")
            if not self.refused_reported:
                self.refused_reported = True
                if getattr(self, "connect_errno", None) == errno.ETIMEDOUT:
                    raise TimeoutError(errno.ETIMEDOUT, "Connection timed out")
                raise ConnectionRefusedError(errno.ECONNREFUSED, "Connection refused")
            raise BrokenPipeError(errno.EPIPE, "Broken pipe")
        if st == "listening":
            raise BrokenPipeError(errno.EPIPE, "Broken pipe")
        # connected
        if self.rst:
            raise ConnectionResetError(errno.ECONNRESET, "Connection reset by peer")
        peer = self.peer
        if len(data) == 0:
            return 0
        if peer is None or peer.state == "closed" and peer.closed_at is not None \
                and sim.now >= peer.closed_at + self.net.cfg.max_latency:
            # writing to a connection the peer closed a while ago
            self.rst = True
            raise BrokenPipeError(errno.EPIPE, "Broken pipe")
        n = len(data)
        k = self.net.draw_write_len(self, n)
        chunk = bytes(data[:k])
        self.tx_bytes += chunk
        self.tx_log.append((sim.steps, sim.now, k))
        sim.log("tx", self.name, k)
        self.net.transmit(self, chunk)
        return k

    def recv(self, n):
        sim = self.sim
        sim.sync_point("sock.recv")
        if self.state == "closed":
            raise OSError(errno.EBADF, "Bad file descriptor")
        if self.state == "refused":
            raise ConnectionRefusedError(errno.ECONNREFUSED, "Connection refused")
        if self.state != "connected":
            raise OSError(errno.ENOTCONN, "Transport endpoint is not connected")
        if self.rbuf:
            out = bytes(self.rbuf[:n])
            del self.rbuf[:n]
            sim.log("rx", self.name, len(out))
            return out
        if self.rst:
            raise ConnectionResetError(errno.ECONNRESET, "Connection reset by peer")
        if self.eof:
            return b""
        raise BlockingIOError(errno.EAGAIN, "Resource temporarily unavailable")

    def close(self):
        sim = self.sim
        sim.sync_point("sock.close")
        self._close()

    def _close(self, reset=False):
        if self.state == "closed":
            return
        was = self.state
        self.state = "closed"
        self.closed_at = self.sim.now
        self.sim.log("close", self.name, was, "rst" if reset else "fin")
        if was == "listening":
            if self.net.listeners.get(self.addr) is self:
                del self.net.listeners[self.addr]
            for s in self.accept_q:
                s._close()
            self.accept_q = []
        peer = self.peer
        if peer is not None and peer.state != "closed":
            self.net.transmit_close(self, reset or bool(self.rbuf))
        # epoll drops closed descriptors silently
        for sel in list(self.selectors):
            sel._forget(self)

    def shutdown(self, how):
        self.sim.prim()

    def getpeername(self):
        return self.addr

    def __repr__(self):
        return "<SimSocket %s %s>" % (self.name, self.state)


class SimSelector(object):
    def __init__(self, net):
        self.net = net
        self.sim = net.sim
        self.name = net.sim.name_obj("P")
        self._map = {}          # fileobj -> SelectorKey
        self._waiter = None
        self.closed = False
        net.selectors.append(self)

    def register(self, fileobj, events, data=None):
        self.sim.sync_point("sel.register")
        if fileobj in self._map:
            raise KeyError("{!r} is already registered".format(fileobj))
        if not events or events & ~(EVENT_READ | EVENT_WRITE):
            raise ValueError("Invalid events: {!r}".format(events))
        if fileobj.state == "closed":
            raise ValueError("Invalid file object: {!r}".format(fileobj))
        key = SelectorKey(fileobj, fileobj.fileno(), events, data)
        self._map[fileobj] = key
        fileobj.selectors.append(self)
        self._kick()
        return key

    def unregister(self, fileobj):
        self.sim.sync_point("sel.unregister")
        if fileobj not in self._map and fileobj.state == "closed":
            # selectors._fileobj_lookup: a closed socket that is not in the map cannot be looked up at all
            raise ValueError("Invalid file descriptor: -1")
        try:
            key = self._map.pop(fileobj)
        except KeyError:
            raise KeyError("{!r} is not registered".format(fileobj)) from None
        if self in fileobj.selectors:
            fileobj.selectors.remove(self)
        return key

    def _forget(self, fileobj):
        # the descriptor was closed while registered; epoll removes it, the
        # Python-level map keeps the stale key (as selectors.py does)
        if self in fileobj.selectors:
            fileobj.selectors.remove(self)

    def modify(self, fileobj, events, data=None):
        self.sim.sync_point("sel.modify")
        if fileobj not in self._map and fileobj.state == "closed":
            raise ValueError("Invalid file descriptor: -1")
        try:
            key = self._map[fileobj]
        except KeyError:
            raise KeyError("{!r} is not registered".format(fileobj)) from None
        if not events or events & ~(EVENT_READ | EVENT_WRITE):
            raise ValueError("Invalid events: {!r}".format(events))
        if fileobj.state == "closed":
            raise OSError(9, "Bad file descriptor")
        changed = False
        if events != key.events:
            key = key._replace(events=events)
            changed = True
        if data != key.data:
            key = key._replace(data=data)
            changed = True
        if changed:
            self._map[fileobj] = key
        self.net.on_modify(self, fileobj, key)
        self._kick()
        return key

    def _ready(self):
        out = []
        for fobj, key in self._map.items():
            if fobj.state == "closed":
                continue
            m = 0
            if key.events & EVENT_READ and fobj.readable():
                m |= EVENT_READ
            if key.events & EVENT_WRITE and fobj.writable():
                m |= EVENT_WRITE
            if m:
                out.append((key, m))
        return out

    def _kick(self):
        w = self._waiter
        if w is not None and w.state == "blocked":
            self.sim.wake(w)

    def select(self, timeout=None):
        sim = self.sim
        sim.sync_point("sel.select")
        deadline = None
        if timeout is not None:
            deadline = sim.now + max(0.0, timeout)
        while True:
            r = self._ready()
            if r:
                self.net.on_select_return(self, r)
                return r
            rem = None
            if deadline is not None:
                rem = deadline - sim.now
                if rem <= 0:
                    return []
            self._waiter = sim.cur
            sim.block(("select", self.name), rem)
            self._waiter = None
            # a write-window re-opening is a timed event: re-evaluate

    def get_map(self):
        return dict(self._map)

    def get_key(self, fileobj):
        return self._map[fileobj]

    def close(self):
        self.closed = True
        for f in list(self._map):
            if self in f.selectors:
                f.selectors.remove(self)
        self._map.clear()

    def __enter__(self):
        return self

    def __exit__(self, *a):
        self.close()


class Net(object):
    def __init__(self, sim, cfg=None):
        self.sim = sim
        self.cfg = cfg or NetConfig()
        self.sockets = []
        self.selectors = []
        self.listeners = {}
        self.virtual_listeners = {}     # addr -> callable(new_peer_side_socket)
        self.listen_hooks = []
        self.modify_hooks = []
        self.select_hooks = []
        self.stats = {"partial_writes": 0, "one_byte_writes": 0, "fragmented": 0,
                      "segments": 0, "connect_ack": 0, "connect_refused": 0,
                      "connect_never": 0, "eof": 0, "rst": 0, "bytes": 0,
                      "write_stalls": 0}

    # ---- module-like facades for bromelia.transport -------------------
    def socket_module(self):
        import socket as real
        net = self

        def socket_(family=None, type_=None, proto=0, *a, **k):
            net.sim.sync_point("sock.new")
            s = SimSocket(net, family, type_, proto)
            s.owner = "node"
            s.group = getattr(net.sim.cur, "group", None)
            return s
        return types.SimpleNamespace(socket=socket_, AF_INET=real.AF_INET,
                                     SOCK_STREAM=real.SOCK_STREAM,
                                     SOL_SOCKET=real.SOL_SOCKET,
                                     SO_REUSEADDR=real.SO_REUSEADDR,
                                     error=OSError, timeout=real.timeout,
                                     gethostbyname=real.gethostbyname,
                                     getfqdn=real.getfqdn)

    def selectors_module(self):
        net = self

        def DefaultSelector():
            net.sim.prim()
            return SimSelector(net)
        return types.SimpleNamespace(DefaultSelector=DefaultSelector,
                                     EVENT_READ=EVENT_READ, EVENT_WRITE=EVENT_WRITE,
                                     SelectorKey=SelectorKey)

    # ---- hooks ----------------------------------------------------------
    def on_listen(self, sock):
        for h in self.listen_hooks:
            h(sock)

    def on_modify(self, sel, fobj, key):
        for h in self.modify_hooks:
            h(sel, fobj, key)

    def on_select_return(self, sel, ready):
        for h in self.select_hooks:
            h(sel, ready)

    # ---- connection establishment --------------------------------------
    def start_connect(self, sock, addr):
        sim = self.sim
        cfg = self.cfg
        outcome = cfg.connect_outcome
        lo, hi = cfg.connect_delay
        d = sim.choose_float("cdelay", lo, hi, 16)

        def done():
            if sock.state != "connecting":
                return
            target = self.listeners.get(addr)
            vl = self.virtual_listeners.get(addr)
            if outcome == "refuse" or (target is None and vl is None):
                sock.state = "refused"
                self.stats["connect_refused"] += 1
                sim.log("connect.refused", sock.name)
                sock._kick()
                return
            other = SimSocket(self)
            other.state = "connected"
            other.peer = sock
            sock.peer = other
            sock.state = "connected"
            self.stats["connect_ack"] += 1
            sim.log("connect.ack", sock.name, other.name)
            if vl is not None:
                other.owner = "peer"
                vl(other)
            else:
                other.owner = "node"
                target.accept_q.append(other)
                target._kick()
            sock._kick()

        if outcome == "never":
            self.stats["connect_never"] += 1
            if cfg.connect_timeout is not None:
                def timed_out():
                    if sock.state == "connecting":
                        sock.state = "refused"
                        sock.connect_errno = errno.ETIMEDOUT
                        sim.log("connect.timeout", sock.name)
                        sock._kick()
                sim.after(cfg.connect_timeout, timed_out)
            return
        sim.after(d, done)

    def peer_connect(self, addr, on_connected=None):
        """An event-driven (scripted) client connects to a listening node
        socket.  Returns the peer-side SimSocket (state 'connecting')."""
        sim = self.sim
        ps = SimSocket(self)
        ps.owner = "peer"
        ps.state = "connecting"
        lo, hi = self.cfg.connect_delay
        d = sim.choose_float("cdelay", lo, hi, 16)

        def done():
            target = self.listeners.get(addr)
            if target is None or ps.state != "connecting":
                ps.state = "refused"
                if on_connected:
                    on_connected(ps, False)
                return
            other = SimSocket(self)
            other.owner = "node"
            other.state = "connected"
            other.peer = ps
            ps.peer = other
            ps.state = "connected"
            sim.log("connect.in", ps.name, other.name)
            target.accept_q.append(other)
            target._kick()
            if on_connected:
                on_connected(ps, True)
        sim.after(d, done)
        return ps

    # ---- data transfer ---------------------------------------------------
    def draw_write_len(self, sock, n):
        cfg = self.cfg
        sim = self.sim
        if n <= 1 or sock.owner != "node":
            return n
        if cfg.p_one_byte_write > 0.0:
            if sim.choose("w1", 2, 1.0 - cfg.p_one_byte_write):
                self.stats["one_byte_writes"] += 1
                self.stats["partial_writes"] += 1
                sim.probe("partial_write")
                return 1
        if cfg.p_partial_write > 0.0:
            if sim.choose("wpart", 2, 1.0 - cfg.p_partial_write):
                k = 1 + sim.choose("wlen", min(n - 1, 4096))
                if k < n:
                    self.stats["partial_writes"] += 1
                    sim.probe("partial_write")
                return k
        return n

    def transmit(self, sock, chunk, cuts=None, delays=None):
        """Deliver ``chunk`` to sock.peer in order, possibly in pieces."""
        sim = self.sim
        cfg = self.cfg
        peer = sock.peer
        self.stats["bytes"] += len(chunk)
        pieces = [chunk]
        if cuts is not None:
            pieces = []
            last = 0
            for c in cuts:
                if last < c < len(chunk):
                    pieces.append(chunk[last:c])
                    last = c
            pieces.append(chunk[last:])
        elif len(chunk) > 1 and cfg.p_fragment > 0.0 and \
                sim.choose("frag", 2, 1.0 - cfg.p_fragment):
            k = 1 + sim.choose("nfrag", cfg.max_fragments)
            pts = sorted(set(1 + sim.choose("cut", len(chunk) - 1) for _ in range(k)))
            pieces = []
            last = 0
            for c in pts:
                pieces.append(chunk[last:c])
                last = c
            pieces.append(chunk[last:])
            self.stats["fragmented"] += 1
        for i, pc in enumerate(pieces):
            if delays is not None and i < len(delays):
                d = delays[i]
            else:
                d = sim.choose_float("lat", cfg.min_latency, cfg.max_latency, 16)
            when = max(sock.last_deliver, sim.now + d)
            sock.last_deliver = when
            sock.inflight += 1
            self.stats["segments"] += 1

            def deliver(pc=pc):
                sock.inflight -= 1
                if peer.state == "closed":
                    return
                peer.rbuf += pc
                peer.rx_total += len(pc)
                sim.log("deliver", peer.name, len(pc))
                peer._kick()
            sim.at(when, deliver)

    def transmit_close(self, sock, reset=False, delay=None):
        sim = self.sim
        peer = sock.peer
        d = delay if delay is not None else sim.choose_float(
            "lat", self.cfg.min_latency, self.cfg.max_latency, 16)
        when = max(sock.last_deliver, sim.now + d)
        sock.last_deliver = when

        def deliver():
            if peer.state == "closed":
                return
            if reset:
                peer.rst = True
                peer.rbuf.clear()
                self.stats["rst"] += 1
                sim.log("rst", peer.name)
            else:
                peer.eof = True
                self.stats["eof"] += 1
                sim.log("eof", peer.name)
            peer._kick()
        sim.at(when, deliver)

    def stall_writes(self, sock, duration):
        sock.write_blocked_until = self.sim.now + duration
        self.stats["write_stalls"] += 1

        def reopen():
            sock._kick()
        self.sim.after(duration, reopen)
