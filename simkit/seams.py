# -*- coding: utf-8 -*-
"""
simkit.seams -- bind bromelia's module-level dependencies to the simulator.

Nothing in /repo is edited: every bromelia module reaches threading, time,
queue, selectors, socket, os.urandom, datetime and multiprocessing through a
module attribute, and those attributes are rebound here, in the harness
process, before a run.  (Runs are executed in a forked child, so nothing has
to be undone.)
"""

import logging
import os
import random
import sys
import types

from .kernel import Sim
from . import simthreading as st
from .net import Net, NetConfig

KNOB_DEFAULTS = {
    "STATE_MACHINE_TICKER": 0.0001,
    "SLEEP_TIMER": 4,
    "SEND_BUFFER_MAXIMUM_SIZE": 4096 * 64,
    "TRACKING_SOCKET_EVENTS_TIMEOUT": 1,
    "BROMELIA_TICKER": 0.0001,
    "BROMELIA_LOADING_TICKER": 0.1,
    "PROCESS_TIMER": 0.001,
    "SEND_THRESHOLD_TICKER": 0.05,
    "WAITING_CONN_TIMER": 2,
    "LISTENING_TICKER": 0.01,
    "REQUEST_THRESHOLD": 40,
    "ANSWER_THRESHOLD": 40,
    "SEND_THRESHOLD": 50,
}

KNOB_MODULES = {
    "STATE_MACHINE_TICKER": ["statemachine", "bromelia"],
    "SLEEP_TIMER": ["statemachine", "setup", "bromelia"],
    "SEND_BUFFER_MAXIMUM_SIZE": ["setup", "statemachine", "bromelia"],
    "TRACKING_SOCKET_EVENTS_TIMEOUT": ["transport", "statemachine", "bromelia"],
    "BROMELIA_TICKER": ["bromelia", "statemachine"],
    "BROMELIA_LOADING_TICKER": ["bromelia", "statemachine"],
    "PROCESS_TIMER": ["bromelia", "statemachine"],
    "SEND_THRESHOLD_TICKER": ["bromelia", "statemachine"],
    "WAITING_CONN_TIMER": ["setup", "bromelia", "statemachine"],
    "LISTENING_TICKER": ["setup", "bromelia", "statemachine"],
    "REQUEST_THRESHOLD": ["bromelia"],
    "ANSWER_THRESHOLD": ["bromelia"],
    "SEND_THRESHOLD": ["bromelia"],
}


def repo_root():
    return os.environ.get("VERIF_REPO", "/repo")


def import_bromelia():
    root = repo_root()
    if root not in sys.path:
        sys.path.insert(0, root)
    import warnings
    with warnings.catch_warnings():
        warnings.simplefilter("ignore")
        import bromelia                     # noqa
        import bromelia.base                # noqa
        import bromelia.setup               # noqa
        import bromelia.transport           # noqa
        import bromelia.statemachine        # noqa
        import bromelia.bromelia            # noqa
        import bromelia._internal_utils     # noqa
        import importlib
        import pkgutil
        import bromelia.lib
        # every module must be imported before a simulation starts: an import
        # inside a pre-emptible thread would park it holding the import lock
        for m in pkgutil.iter_modules(bromelia.lib.__path__):
            importlib.import_module("bromelia.lib." + m.name)
            importlib.import_module("bromelia.lib." + m.name + ".messages")
    return sys.modules["bromelia"]


class SimWorld(object):
    """A Sim plus all the module facades, installed into bromelia."""

    def __init__(self, sim, netcfg=None, knobs=None, urandom=None, urandom_seed=0):
        self.sim = sim
        sim.role_for_thread = self._role_for_thread
        self.threading = st.make_threading(sim)
        self.queue = st.make_queue(sim, self.threading)
        self.time = st.make_time(sim)
        self.datetime = st.make_datetime(sim)
        self.net = Net(sim, netcfg or NetConfig())
        self.manager = st.SimManager(self.threading, self.queue)
        self.knobs = dict(KNOB_DEFAULTS)
        if knobs:
            self.knobs.update(knobs)
        self.urandom = urandom
        self.urandom_seed = urandom_seed
        self.role_counts = {}

    def _role_for_thread(self, name, target):
        cur = self.sim.cur
        prefix = ""
        if cur is not None and ":" in cur.role:
            prefix = cur.role.split(":", 1)[0] + ":"
        base = name or getattr(target, "__name__", "thread")
        role = prefix + base
        c = self.role_counts.get(role, 0)
        self.role_counts[role] = c + 1
        if c:
            role = "%s#%d" % (role, c)
        return role

    def _sim_lock_like(self, real_lock):
        import _thread
        if isinstance(real_lock, type(_thread.allocate_lock())):
            return self.threading.Lock()
        return self.threading.RLock()

    def install(self):
        import bromelia.transport as transport
        import bromelia.setup as setup
        import bromelia.statemachine as statemachine
        import bromelia.bromelia as bro
        import bromelia.base as base
        import bromelia._internal_utils as iu
        import bromelia.config as config
        import bromelia.avps.ietf.rfc6733 as rfc6733_avps

        sim = self.sim
        for m in (transport, setup, statemachine, bro):
            m.threading = self.threading
        setup.queue = self.queue
        for m in (statemachine, setup, bro):
            m.time = self.time
        setup.datetime = self.datetime
        iu.datetime = self.datetime
        transport.selectors = self.net.selectors_module()
        transport.socket = self.net.socket_module()
        rnd = random.Random(12345)
        transport.random = rnd

        # os.urandom
        if self.urandom is not None:
            src = self.urandom
        else:
            r2 = random.Random(self.urandom_seed)
            # identifiers do not influence control flow of a live node, but they
            # do appear in logs: derive them from the scenario, not from the OS
            def src(n, r2=r2):
                return bytes(r2.getrandbits(8) for _ in range(n))

        def urandom(n):
            sim.sync_point("urandom")
            return src(n)
        base.os = types.SimpleNamespace(urandom=urandom, path=os.path,
                                        getcwd=os.getcwd, environ=os.environ)

        # multiprocessing.Manager / Worker.start
        mgr = self.manager
        import multiprocessing as real_mp
        bro.multiprocessing = types.SimpleNamespace(
            Manager=lambda: mgr, Process=real_mp.Process)
        threading_mod = self.threading

        def worker_start(worker):
            t = threading_mod.Thread(name="worker_run", target=worker.run)
            worker._sim_thread = t
            t.start()
        bro.Worker.start = worker_start

        # generic pass: any bromelia module that reaches threading / queue /
        # time / datetime through a module attribute gets the simulated one,
        # and lock objects created at import time (module globals, class
        # attributes) are replaced by simulated locks -- a real lock held by a
        # parked thread would freeze the whole simulation.
        import _thread
        import threading as real_threading
        import queue as real_queue
        import time as real_time
        import datetime as real_datetime
        real_lock_types = (type(_thread.allocate_lock()), type(real_threading.RLock()))
        for name, m in list(sys.modules.items()):
            if m is None or not (name == "bromelia" or name.startswith("bromelia.")):
                continue
            d = getattr(m, "__dict__", {})
            if d.get("threading") is real_threading:
                m.threading = self.threading
            if d.get("queue") is real_queue:
                m.queue = self.queue
            if d.get("time") is real_time:
                m.time = self.time
            if d.get("datetime") is real_datetime:
                m.datetime = self.datetime
            for k, v in list(d.items()):
                if isinstance(v, real_lock_types):
                    setattr(m, k, self._sim_lock_like(v))
                elif isinstance(v, type) and getattr(v, "__module__", "") == name:
                    for ck, cv in list(vars(v).items()):
                        if isinstance(cv, real_lock_types):
                            setattr(v, ck, self._sim_lock_like(cv))

        # knobs
        mods = {"statemachine": statemachine, "setup": setup, "bromelia": bro,
                "transport": transport}
        for k, v in self.knobs.items():
            for mn in KNOB_MODULES.get(k, ()):  # only where the name exists
                m = mods[mn]
                if hasattr(m, k):
                    setattr(m, k, v)

        # silence logging (never perturbs the schedule: no sim primitive inside)
        logging.disable(logging.CRITICAL)
        return self


def bromelia_trace_root():
    return os.path.join(repo_root(), "bromelia") + os.sep
