# -*- coding: utf-8 -*-
"""
simkit.simthreading -- drop-in replacements for the parts of ``threading``,
``queue``, ``time``, ``datetime`` and ``multiprocessing.Manager`` that
bromelia uses, running on the deterministic kernel.

Condition, Event, Barrier, Semaphore, _RLock and queue.Queue are NOT
re-implemented: CPython's own pure-Python sources are re-executed in a
namespace where the primitive lock is SimLock and the clock is simulated.
"""

import collections
import datetime as _real_datetime
import heapq
import inspect
import itertools
import queue as _real_queue
import sys
import textwrap
import threading as _real_threading
import types

from .kernel import SimThread, BLOCKED


def make_lock_class(sim):
    class SimLock(object):
        __slots__ = ("_locked", "_owner", "_waiters", "name", "held_since",
                     "acquisitions")

        def __init__(self):
            self._locked = False
            self._owner = None
            self._waiters = []
            self.name = sim.name_obj("L")
            self.held_since = None
            self.acquisitions = 0

        def acquire(self, blocking=True, timeout=-1):
            sim.sync_point("lock.acquire")
            deadline = None
            if blocking and timeout is not None and timeout >= 0:
                deadline = sim.now + timeout
            while True:
                if not self._locked:
                    self._locked = True
                    self._owner = sim.cur
                    self.held_since = sim.now
                    self.acquisitions += 1
                    return True
                if not blocking:
                    return False
                rem = None
                if deadline is not None:
                    rem = deadline - sim.now
                    if rem <= 0:
                        return False
                me = sim.cur
                self._waiters.append(me)
                sim.block(("lock", self.name), rem)
                if me in self._waiters:
                    self._waiters.remove(me)

        def release(self):
            if not self._locked:
                raise RuntimeError("release unlocked lock")
            self._locked = False
            self._owner = None
            self.held_since = None
            ws = self._waiters
            if ws:
                i = sim.choose("lockwake", len(ws)) if len(ws) > 1 else 0
                w = ws.pop(i)
                sim.wake(w)
            sim.sync_point("lock.release")

        def locked(self):
            sim.prim()
            return self._locked

        def __enter__(self):
            self.acquire()
            return self

        def __exit__(self, *a):
            self.release()

        def _at_fork_reinit(self):
            self._locked = False
            self._waiters = []

        def __repr__(self):
            return "<SimLock %s %s owner=%s>" % (
                self.name, "locked" if self._locked else "unlocked",
                self._owner.role if self._owner else None)

    return SimLock


_THREADING_CLASSES = ["_RLock", "Condition", "Semaphore", "BoundedSemaphore",
                      "Event", "Barrier"]


def make_threading(sim):
    """Return a module-like object usable as ``threading``."""
    SimLock = make_lock_class(sim)
    ns = {
        "__name__": "simthreading",
        "_allocate_lock": SimLock,
        "Lock": SimLock,
        "_time": sim.monotonic,
        "get_ident": lambda: sim.cur.tid,
        "_deque": collections.deque,
        "_islice": itertools.islice,
        "_sys": sys,
        "_heapq": heapq,
        "BrokenBarrierError": _real_threading.BrokenBarrierError,
        "_active": {},
    }
    for cname in _THREADING_CLASSES:
        src = textwrap.dedent(inspect.getsource(getattr(_real_threading, cname)))
        exec(compile(src, "<simthreading:%s>" % cname, "exec"), ns)
    ns["RLock"] = ns["_RLock"]

    def Thread(group=None, target=None, name=None, args=(), kwargs=None, *,
               daemon=None):
        role = sim.role_for_thread(name, target) if hasattr(sim, "role_for_thread") else name
        return SimThread(sim, target=target, name=name, args=args,
                         kwargs=kwargs, daemon=daemon, role=role, library=True)

    def current_thread():
        return sim.cur

    def enumerate_():
        return [t for t in sim.threads if t.state in ("runnable", "blocked")]

    Event_ = ns["Event"]

    class Timer(object):
        """threading.Timer on the simulated clock (CPython's Timer is a Thread subclass whose run() waits on an
        Event with a timeout; the same here, on a simulator thread)."""

        def __init__(self, interval, function, args=None, kwargs=None):
            self.interval = interval
            self.function = function
            self.args = args if args is not None else []
            self.kwargs = kwargs if kwargs is not None else {}
            self.finished = Event_()
            self.daemon = True
            self.name = "Timer"
            self._t = None

        def _run(self):
            self.finished.wait(self.interval)
            if not self.finished.is_set():
                self.function(*self.args, **self.kwargs)
            self.finished.set()

        def start(self):
            self._t = Thread(target=self._run, name=self.name, daemon=self.daemon)
            self._t.start()

        def cancel(self):
            self.finished.set()

        def join(self, timeout=None):
            if self._t is not None:
                return self._t.join(timeout)

        def is_alive(self):
            return self._t is not None and self._t.is_alive()

    mod = types.SimpleNamespace(**{k: v for k, v in ns.items() if not k.startswith("__")})
    mod.Thread = Thread
    mod.Timer = Timer
    # simulator threads are real threads parked on a baton: thread-local storage is the interpreter's own
    mod.local = _real_threading.local
    mod.get_native_id = lambda: sim.cur.tid
    mod.ThreadError = RuntimeError
    mod.current_thread = current_thread
    mod.currentThread = current_thread
    mod.enumerate = enumerate_
    mod.active_count = lambda: len(enumerate_())
    mod.main_thread = lambda: sim.main
    mod.SimLock = SimLock
    mod.TIMEOUT_MAX = _real_threading.TIMEOUT_MAX
    return mod


def make_queue(sim, simthreading):
    ns = {
        "__name__": "simqueue",
        "threading": simthreading,
        "types": types,
        "deque": collections.deque,
        "heappush": heapq.heappush,
        "heappop": heapq.heappop,
        "time": sim.monotonic,
        "Empty": _real_queue.Empty,
        "Full": _real_queue.Full,
    }
    for cname in ("Queue", "PriorityQueue", "LifoQueue", "_PySimpleQueue"):
        src = textwrap.dedent(inspect.getsource(getattr(_real_queue, cname)))
        exec(compile(src, "<simqueue:%s>" % cname, "exec"), ns)
    mod = types.SimpleNamespace(Queue=ns["Queue"], PriorityQueue=ns["PriorityQueue"], LifoQueue=ns["LifoQueue"],
                                SimpleQueue=ns["_PySimpleQueue"], Empty=_real_queue.Empty,
                                Full=_real_queue.Full)
    return mod


def make_time(sim):
    def sleep(d):
        sim.sync_point("time.sleep")
        sim.sleep(d)

    def time_():
        sim.prim()
        return sim.time()

    def monotonic():
        sim.prim()
        return sim.monotonic()

    import time as _rt

    def time_ns():
        return int(time_() * 1e9)

    def monotonic_ns():
        return int(monotonic() * 1e9)

    def gmtime(secs=None):
        return _rt.gmtime(time_() if secs is None else secs)

    def localtime(secs=None):
        return _rt.gmtime(time_() if secs is None else secs)      # the simulated host runs on UTC

    def strftime(fmt, t=None):
        return _rt.strftime(fmt, gmtime() if t is None else t)

    def ctime(secs=None):
        return _rt.asctime(gmtime(secs))

    return types.SimpleNamespace(sleep=sleep, time=time_, monotonic=monotonic,
                                 perf_counter=monotonic, process_time=monotonic, time_ns=time_ns,
                                 monotonic_ns=monotonic_ns, perf_counter_ns=monotonic_ns,
                                 gmtime=gmtime, localtime=localtime, strftime=strftime, ctime=ctime,
                                 asctime=_rt.asctime, mktime=_rt.mktime, struct_time=_rt.struct_time,
                                 timezone=0, altzone=0, daylight=0, tzname=("UTC", "UTC"))


def make_datetime(sim):
    real = _real_datetime

    class datetime(real.datetime):
        @classmethod
        def utcnow(cls):
            sim.prim()
            return cls(1970, 1, 1) + real.timedelta(seconds=sim.wall_clock())

        @classmethod
        def now(cls, tz=None):
            sim.prim()
            return cls(1970, 1, 1) + real.timedelta(seconds=sim.wall_clock())

    return types.SimpleNamespace(datetime=datetime, timedelta=real.timedelta,
                                 date=real.date, time=real.time,
                                 timezone=real.timezone)


class SimManager(object):
    """Stand-in for multiprocessing.Manager(): same-process primitives."""

    def __init__(self, simthreading, simqueue):
        self._t = simthreading
        self._q = simqueue

    def Event(self):
        return self._t.Event()

    def Lock(self):
        return self._t.Lock()

    def Queue(self, maxsize=0):
        return self._q.Queue(maxsize)

    def __enter__(self):
        return self

    def __exit__(self, *a):
        return False
